"""Shared analyses for the three COSEM decoders (C07, C08, C09): wire types of the grammars (E-CONS), naming through obis_name_map,
exact-scaling idiom catalogue (DESIGN.md A.6), frame/body agreement, manufacturer constant."""
from __future__ import annotations

import ast

from sa.consir import EnumVal, Expr, N, World, all_nodes, routes
from sa.consteval import ConstEval, NotConstant
from sa.paths import Engine, loop_body_paths, show_sv, strip_epoch
from sa.report import Undecided

# COSEM Blue Book table 2: tag -> (octets, signed)
WIRE = {6: (4, False), 15: (1, True), 16: (2, True), 18: (2, False), 5: (4, True), 17: (1, False), 20: (8, True), 21: (8, False)}


def int_spec(n):
    if isinstance(n, N) and n.kind == "Int":
        return (n.a["size"], n.a["signed"], n.a.get("endian", "big"))
    return None


def wire_type_findings(w: World, mods):
    """every Switch case / XField keyed or tagged by a COSEM integer type must use the matching width and signedness, big-endian"""
    out = []  # (kind, module, where, text, line)
    n_checked = 0
    seen = set()
    for mod in mods:
        m = w.module(mod)
        for name, g in m.env.items():
            if not isinstance(g, N):
                continue
            for node in all_nodes(g):
                if id(node.ident) in seen:
                    continue
                seen.add(id(node.ident))
                if node.kind == "Switch":
                    for key, sub in node.a["cases"].items():
                        if isinstance(key, EnumVal) and key.value in WIRE and isinstance(sub, N):
                            n_checked += 1
                            spec = int_spec(sub)
                            want = WIRE[key.value] + ("big",)
                            if spec is None or spec != want:
                                out.append(("bad", mod, f"{name}:{node.name or 'Switch'}:case {key.member}",
                                            f"COSEM type {key.member} (tag {key.value}) must be parsed as a {want[0]}-octet {'signed' if want[1] else 'unsigned'} big-endian integer, "
                                            f"found {sub.kind}{spec or ''}", sub.line or node.line))
                if node.kind in ("FocusedSeq", "Struct"):
                    subs = [s for s in node.a["subs"] if isinstance(s, N)]
                    for i, s in enumerate(subs[:-1]):
                        if s.kind == "Const" and isinstance(s.a.get("value"), EnumVal) and s.a["value"].value in WIRE:
                            nxt = subs[i + 1]
                            spec = int_spec(nxt)
                            if spec is not None:
                                n_checked += 1
                                want = WIRE[s.a["value"].value] + ("big",)
                                if spec != want:
                                    out.append(("bad", mod, f"{name}:{node.src or node.name or node.kind}",
                                                f"a field tagged {s.a['value'].member} is parsed as {spec} instead of {want}", nxt.line or node.line))
    return out, n_checked


def obis_code_field(w: World):
    """ObisCodeOctedStringField = tag 9, length 6, six unsigned octets joined with '.'"""
    cos = w.module("cosem")
    f = cos.env.get("ObisCodeOctedStringField")
    if not isinstance(f, N) or f.kind != "FocusedSeq":
        return "ObisCodeOctedStringField is not a FocusedSeq"
    subs = [s for s in f.a["subs"] if isinstance(s, N)]
    if len(subs) != 3:
        return "OBIS field does not have tag, length and code members"
    t, l, c = subs
    if not (t.kind == "Const" and isinstance(t.a["value"], EnumVal) and t.a["value"].value == 9):
        return "OBIS field does not start with the octet-string tag"
    if not (l.kind == "Const" and l.a["value"] == 6 and int_spec(l.a["sub"]) == (1, False, "big")):
        return "OBIS field length constant is not 6"
    if not (c.kind == "ExprAdapter" and isinstance(c.a["sub"], N) and c.a["sub"].kind == "Array" and c.a["sub"].a["count"] == 6 and int_spec(c.a["sub"].a["sub"]) == (1, False, "big")):
        return "OBIS code is not six unsigned octets"
    dec = c.a["decoder"]
    node = dec.node if isinstance(dec, Expr) else None
    if isinstance(node, ast.Name):
        # a named module-level function used as the decoder
        tree = w.src.tree(dec.mod or "cosem")
        node = next((s_ for s_ in tree.body if isinstance(s_, ast.FunctionDef) and s_.name == node.id), None)
    if not isinstance(node, (ast.Lambda, ast.FunctionDef)):
        raise Undecided("the decoder of the OBIS code field is not a lambda or a module-level function")
    # the decoder is interpreted on octet lists (boundary values, one to three digits): it must give the six groups in decimal joined with '.'
    from sa.consteval import NotConstant
    from sa.lameval import Ctx, LamEval
    from sa.model import Model
    le = LamEval(Model(w.src))
    for octs in ([1, 0, 1, 8, 0, 255], [0, 0, 96, 1, 0, 255], [255, 254, 10, 100, 9, 0], [1, 1, 31, 7, 0, 255]):
        try:
            got = le.call_lambda(node, [list(octs), Ctx()], dec.mod or "cosem", extra=dict(le.module_env(dec.mod or "cosem")))
        except NotConstant as ex:
            raise Undecided(f"the decoder of the OBIS code field is outside the interpreted subset: {ex}")
        if got != ".".join(str(o) for o in octs):
            return f"OBIS decoder does not join the six groups (decimal) with '.': {octs} gives {got!r}"
    return None


def setitems(path, dict_names=("dictionary",)):
    out = []
    for e in path.effects:
        if e[0] == "setitem" and e[1][0] in ("g", "l") or (e[0] == "setitem" and e[1][0] == "tuple"):
            out.append((strip_epoch(e[2]), strip_epoch(e[3]), e[-1]))
        elif e[0] == "setitem":
            out.append((strip_epoch(e[2]), strip_epoch(e[3]), e[-1]))
    return out


def is_cdr_of(sv, item):
    """sv = Obis.from_string(<item>.obis).to_group_cdr_str()"""
    return sv[0] == "call" and "to_group_cdr_str" in str(sv[1]) and len(sv[2]) == 1 and sv[2][0][0] == "call" and "from_string" in str(sv[2][0][1]) \
        and sv[2][0][2][-1] == ("f0", item, "obis")


def naming_verdict(key, guards, item):
    """key of the dictionary store: obis_name_map[cdr] under `cdr in obis_name_map`, else cdr. Returns None if fine, else text."""
    in_map = None
    for g, pol, _ in guards:
        g = strip_epoch(g)
        if g[0] == "cmp" and g[1] == "In" and is_cdr_of(g[2], item) and g[3][0] == "f0" and g[3][2] == "obis_name_map":
            in_map = pol
    if key[0] == "sub" and key[1][0] == "f0" and key[1][2] == "obis_name_map" and is_cdr_of(key[2], item):
        return None if in_map is True else "the common-name table is indexed without a membership test (unknown OBIS codes raise KeyError)"
    if is_cdr_of(key, item):
        return None if in_map is False else "a known OBIS code is keyed by C.D.E instead of its common field name"
    if key[0] == "call" and str(key[1]).endswith(".get") and len(key[2]) == 3 and key[2][0][0] == "f0" and key[2][0][2] == "obis_name_map" and is_cdr_of(key[2][1], item) and is_cdr_of(key[2][2], item):
        return None
    return f"the field key is not derived from groups C.D.E of the element's OBIS code through obis_name_map ({show_sv(key)[:80]})"


def name_map_findings(ce: ConstEval):
    try:
        nom = ce.module_value("obis_map", "name_obis_map")
        onm = ce.module_value("obis_map", "obis_name_map")
    except NotConstant as e:
        return [f"obis name tables are not constant: {e}"], 0
    bad = []
    seen = {}
    for name, codes in nom.items():
        for c in codes:
            if c in seen and seen[c] != name:
                bad.append(f"OBIS group {c} is mapped to two names: {seen[c]} and {name}")
            seen[c] = name
    for c, name in seen.items():
        if onm.get(c) != name:
            bad.append(f"obis_name_map[{c}] = {onm.get(c)!r} but name_obis_map lists it under {name!r}")
    for c in onm:
        if c not in seen:
            bad.append(f"obis_name_map has an extra code {c}")
    # IEC 62056-61 value group C: quantity q (1..20) of phase k is coded q + 20*k (k = 1, 2, 3 for L1, L2, L3; q itself is the sum over the phases).
    # Names must follow the code: the per-phase names of one quantity differ exactly in their _l<k> suffix, and carry the name of the sum when it is in the table.
    import re as _re
    by_cde = {}
    for c, name in onm.items():
        m_ = _re.fullmatch(r"(\d+)\.(\d+)\.(\d+)", c)
        if m_:
            by_cde[(int(m_.group(1)), int(m_.group(2)), int(m_.group(3)))] = name
    for (cg, d, e_), name in sorted(by_cde.items()):
        if 21 <= cg <= 80:
            k, q = (cg - 1) // 20, (cg - 1) % 20 + 1
            if not name.endswith(f"_l{k}"):
                bad.append(f"OBIS {cg}.{d}.{e_} is a phase L{k} quantity (C = {q} + 20*{k}) but is named {name!r}")
                continue
            stem = name[: -len(f"_l{k}")]
            total = by_cde.get((q, d, e_))
            if total is not None and total != stem:
                bad.append(f"OBIS {cg}.{d}.{e_} (phase L{k} of quantity {q}) is named {name!r} although quantity {q}.{d}.{e_} is {total!r}")
            for k2 in (1, 2, 3):
                other = by_cde.get((q + 20 * k2, d, e_))
                if other is not None and k2 != k and other.endswith(f"_l{k2}") and other[: -len(f"_l{k2}")] != stem:
                    bad.append(f"OBIS {cg}.{d}.{e_} and {q + 20 * k2}.{d}.{e_} are the same quantity on two phases but are named {name!r} and {other!r}")
    return bad, len(onm)


# ------------------------------------------------------------------------------------------------ exact-scaling idioms (A.6)
def pow10(sv):
    """sv = 10 ** X  -> X ; else None"""
    if sv[0] == "op" and sv[1] == "Pow" and sv[2] == ("c", 10):
        return sv[3]
    return None


def neg_of(a, b):
    """a is syntactically -b or abs(b) (for negative b)"""
    if a[0] == "un" and a[1] == "USub" and a[2] == b:
        return True
    if a[0] == "op" and a[1] == "Mult" and ((a[2] == b and a[3] == ("c", -1)) or (a[3] == b and a[2] == ("c", -1))):
        return True
    if a[0] == "call" and a[1] == "abs" and a[2] == (b,):
        return True
    return False


def scaling_idiom(val, v, s):
    """classify the stored value expression for wire integer v and exponent expression s.
    returns (kind, ok_for_negative, ok_for_positive): kind in mult | round-mult | div | decimal | identity | other"""
    if val == v:
        return "identity", False, False
    if val[0] == "op" and val[1] == "Mult":
        a, b = val[2], val[3]
        if b == v:
            a, b = b, a
        if a == v and pow10(b) == s:
            return "mult", False, True  # v * 10**s : exact only for s >= 0
    if val[0] == "call" and val[1] == "round" and len(val[2]) in (1, 2):
        inner = val[2][0]
        nd = val[2][1] if len(val[2]) == 2 else ("c", 0)
        k = scaling_idiom(inner, v, s)
        if k[0] == "mult" and neg_of(nd, s):
            return "round-mult", True, False
        if k[0] == "mult":
            return "round-wrong-digits", False, False
    if val[0] == "op" and val[1] == "Div":
        a, b = val[2], val[3]
        p = pow10(b)
        if a == v and p is not None and neg_of(p, s):
            return "div", True, False
    if val[0] == "call" and val[1] == "float" and len(val[2]) == 1 and "Decimal" in show_sv(val[2][0]):
        return "decimal", True, True
    return "other", False, False


def frame_body_findings(w: World, M, mod, body_name="NotificationBody", frame_name="LlcPdu"):
    """the frame grammar wraps the same body grammar object; decode_* parse with them and go through the normalisers"""
    out = []
    m = w.module(mod)
    body, frame = m.env.get(body_name), m.env.get(frame_name)
    if not isinstance(body, N) or not isinstance(frame, N):
        return [f"{mod}.{body_name}/{frame_name} not extracted"]
    return out


def parse_targets(M, mod):
    """{function name: grammar variable parsed}"""
    res = {}
    for fname in ("decode_frame_content", "decode_notification_body"):
        fn = M.funcs.get(f"{mod}.{fname}")
        if fn is None:
            res[fname] = None
            continue
        tgt = None
        for n in ast.walk(fn.node):
            if isinstance(n, ast.Call) and isinstance(n.func, ast.Attribute) and n.func.attr == "parse" and isinstance(n.func.value, ast.Name):
                tgt = n.func.value.id
        if tgt is None:
            # the grammar handed to a shared helper that parses with its parameter: helper(GRAMMAR, normaliser, data) where the helper's body calls <that parameter>.parse(...)
            for n in ast.walk(fn.node):
                if not (isinstance(n, ast.Call) and n.args):
                    continue
                callee = None
                if isinstance(n.func, ast.Name):
                    callee = M.funcs.get(f"{mod}.{n.func.id}")
                elif isinstance(n.func, ast.Attribute) and isinstance(n.func.value, ast.Name):
                    imp = M.imports.get(mod, {}).get(n.func.value.id)
                    callee = M.funcs.get(f"{imp[1]}.{n.func.attr}") if imp and imp[0] == "module" else None
                if callee is None:
                    continue
                params = [a.arg for a in callee.node.args.args]
                parsed_params = {x.func.value.id for x in ast.walk(callee.node) if isinstance(x, ast.Call) and isinstance(x.func, ast.Attribute) and x.func.attr == "parse" and isinstance(x.func.value, ast.Name)}
                for i_, a_ in enumerate(n.args):
                    if isinstance(a_, ast.Name) and i_ < len(params) and params[i_] in parsed_params:
                        tgt = a_.id
        res[fname] = tgt
    return res


def parse_target_sets(M, mod):
    """{entry point: set of grammar variables whose .parse() it (or a module function it calls) applies to the input}"""
    res = {}
    funcs = {n.split(".", 1)[1]: f for n, f in M.funcs.items() if f.mod == mod and f.cls is None}
    for fname in ("decode_frame_content", "decode_notification_body"):
        fn = funcs.get(fname)
        if fn is None:
            res[fname] = None
            continue
        tg, seen, work = set(), set(), [fn]
        while work:
            f = work.pop()
            if f.name in seen:
                continue
            seen.add(f.name)
            for n in ast.walk(f.node):
                if isinstance(n, ast.Call) and isinstance(n.func, ast.Attribute) and n.func.attr == "parse" and isinstance(n.func.value, ast.Name):
                    tg.add(n.func.value.id)
                if isinstance(n, ast.Call) and isinstance(n.func, ast.Name) and n.func.id in funcs and not n.func.id.startswith("normalize") and not n.func.id.startswith("_normalize"):
                    work.append(funcs[n.func.id])
        res[fname] = tg
    return res


def obis_groups_field(M):
    """the field of Obis that holds the six value groups: the attribute the constructor assigns its parameter to"""
    c = M.classes.get(("obis", "Obis"))
    init = c.methods.get("__init__") if c else None
    if init is None or not init.params:
        return None
    for n in ast.walk(init.node):
        if isinstance(n, (ast.Assign, ast.AnnAssign)) and isinstance(n.value, ast.Name) and n.value.id == init.params[0]:
            t = n.targets[0] if isinstance(n, ast.Assign) else n.target
            if isinstance(t, ast.Attribute):
                return t.attr
    return None


def canon_text(term):
    """flatten text-building terms (f-strings, str(), '.'.join) into a list of parts"""
    from sa.sveval import Res
    if isinstance(term, str):
        return [term] if term else []
    if isinstance(term, Res) and term.op == "fstr":
        out = []
        for a in term.args:
            out += canon_text(a)
        return out
    if isinstance(term, Res) and term.op == "str" and len(term.args) == 1:
        return canon_text(term.args[0])
    if isinstance(term, Res) and term.op == "join" and len(term.args) == 2 and isinstance(term.args[0], str) and isinstance(term.args[1], (list, tuple)):
        out = []
        for k, a in enumerate(term.args[1]):
            if k:
                out.append(term.args[0])
            out += canon_text(a)
        return out
    if isinstance(term, Res) and term.op == "Add" and len(term.args) == 2:
        return None  # commutative normal form lost the order
    return [term]


def cdr_groups_finding(M):
    """Obis.to_group_cdr_str gives "<C>.<D>.<E>" for symbolic value groups (E-ABS); returns None if fine, else text"""
    from sa.abseval import AbsEval, AObj, Sym
    fn = M.funcs.get("obis.Obis.to_group_cdr_str")
    gf = obis_groups_field(M)
    if fn is None or gf is None:
        return "anchor vanished: Obis.to_group_cdr_str / the groups field"
    g = tuple(Sym(x, "int") for x in "ABCDEF")
    r = AbsEval(M).apply(fn, [AObj("Obis", {gf: g}, cls_key=("obis", "Obis"))])
    if r[0] == "branch":
        # the string depends on a test of a group value: decide on concrete group tuples (zero, absent and ordinary groups)
        for gs in ((1, 2, 3, 4, 5, 6), (None, None, 1, 8, 0, None), (0, 0, 0, 0, 0, 0), (1, 0, 99, 97, 0, 255), (None, None, 96, 1, None, None), (1, 1, 0, 2, 129, 255)):
            rc = AbsEval(M).apply(fn, [AObj("Obis", {gf: gs}, cls_key=("obis", "Obis"))])
            want = ".".join(str(x) for x in gs[2:5])
            if rc[0] in ("undecided", "branch"):
                break
            if rc != ("value", want):
                return f"for groups {gs} the C.D.E string is {rc[1]!r} instead of {want!r}"
        else:
            # ... and in one interpreter state, one after the other (codes that differ only in an absent / zero group, both orders): what was formatted before must not matter
            seq = [(None, None, 1, 8, 0, None), (None, None, 1, 8, None, None), (1, 0, 1, 7, None, None), (1, 0, 1, 7, 0, 255), (None, None, 0, 0, 0, None), (None, None, 0, 0, None, None),
                   (1, 1, 0, 2, 129, 255), (1, 2, 3, 4, 5, 6)]
            for order in (seq, seq[::-1]):
                A1 = AbsEval(M)
                for gs in order:
                    rc = A1.apply(fn, [AObj("Obis", {gf: gs}, cls_key=("obis", "Obis"))])
                    want = ".".join(str(x) for x in gs[2:5])
                    if rc[0] in ("undecided", "branch"):
                        break
                    if rc != ("value", want):
                        return (f"after other codes have been formatted, the C.D.E string for groups {gs} is {rc[1]!r} instead of {want!r} (state kept between calls: e.g. a cache whose key does not "
                                "distinguish an absent group from 0)")
                else:
                    continue
                break
            else:
                return None
    if r[0] in ("undecided", "branch"):
        from sa.report import Undecided
        raise Undecided(f"Obis.to_group_cdr_str is outside the interpreted subset ({r[1]})")
    if r[0] != "value":
        return f"to_group_cdr_str raises {r[1]} on an ordinary six-group code"
    got = canon_text(r[1])
    if got != [g[2], ".", g[3], ".", g[4]]:
        return f"the C.D.E string is built as {r[1]!r} instead of groups C, D, E joined by '.'"
    return None


def ref_cdr(code):
    """reference: groups C.D.E of a six-group OBIS code written with any of the standard separators"""
    parts = code.replace("-", ".").replace(":", ".").replace("*", ".").split(".")
    return ".".join(str(int(x)) if x.isdigit() else x for x in parts[2:5])


def obis_hook(args, kw):
    """summary of Obis.from_string for E-ABS (the parser itself is C20): an object whose C.D.E string is that of the code"""
    from sa.abseval import AObj
    from sa.sveval import Res
    code = args[0]
    if isinstance(code, str):
        return AObj("Obis", {"to_group_cdr_str": (lambda c=code: ref_cdr(c))})
    return AObj("Obis", {"to_group_cdr_str": (lambda c=code: Res("cdr", c))})


# ------------------------------------------------------------------------------------------------ role resolution of private helpers
def module_callees(M, mod, roots):
    """names of functions of module `mod` reachable from the given function names through direct calls"""
    funcs = {n.split(".", 1)[1]: f for n, f in M.funcs.items() if f.mod == mod and f.cls is None}
    seen, work = set(), [r for r in roots if r in funcs]
    while work:
        f = work.pop()
        if f in seen:
            continue
        seen.add(f)
        for n in ast.walk(funcs[f].node):
            if isinstance(n, ast.Call) and isinstance(n.func, ast.Name) and n.func.id in funcs and n.func.id not in seen:
                work.append(n.func.id)
    return seen


def normaliser_workers(M, mod):
    """the private function(s) that turn list items into the dictionary, found from the public normalize_* entry points"""
    public = {"normalize_parsed_frame", "normalize_parsed_notification", "decode_frame_content", "decode_notification_body"}
    reach = module_callees(M, mod, ["normalize_parsed_notification", "normalize_parsed_frame"]) - public
    out = []
    for name in sorted(reach):
        f = M.funcs.get(f"{mod}.{name}")
        if f is not None and any(isinstance(n, ast.For) for n in ast.walk(f.node)) and any(isinstance(n, ast.Subscript) and isinstance(n.ctx, ast.Store) for n in ast.walk(f.node)):
            out.append(f)
    return out


def p1_decode_worker(M):
    reach = module_callees(M, "dlde", ["decode_p1_readout_content"]) - {"decode_p1_readout_content", "parse_p1_readout_content", "parse_p1_readout"}
    for name in sorted(reach):
        f = M.funcs.get(f"dlde.{name}")
        if f is not None and any(isinstance(n, ast.For) for n in ast.walk(f.node)):
            return f
    return None


def octet_string_text_finding(w):
    """cosem.Field: an octet string (tag 9) is a date-time struct or text, a visible string (tag 10) is text - nothing else may claim the octets first.
    Returns None if fine, else text."""
    from sa.consir import EnumVal, N, kinds
    cos = w.module("cosem")
    fld, dt = cos.env.get("Field"), cos.env.get("DateTime")
    if not isinstance(fld, N) or not isinstance(dt, N):
        return "anchor vanished: cosem.Field / cosem.DateTime"
    sw = next((s_ for s_ in fld.a.get("subs", []) if isinstance(s_, N) and s_.kind == "Switch"), None)
    if sw is None:
        return "cosem.Field has no type switch"
    def length_prefix(a):
        """the Int node that holds the length of a text construct (PascalString / FocusedSeq of length + PaddedString), or None"""
        if a.kind == "PascalString" and isinstance(a.a.get("len"), N):
            return a.a["len"]
        if a.kind == "FocusedSeq":
            subs_ = [x for x in a.a.get("subs", []) if isinstance(x, N)]
            if len(subs_) == 2 and subs_[0].kind == "Int" and subs_[1].kind == "PaddedString" and subs_[0].name and subs_[0].name in str(getattr(subs_[1].a.get("len"), "src", "")):
                return subs_[0]
        return None
    for key, sub in sw.a["cases"].items():
        if not isinstance(key, EnumVal) or key.value not in (9, 10):
            continue
        alts = sub.a["subs"] if sub.kind == "Select" else [sub]
        for a in alts:
            lp = length_prefix(a) if isinstance(a, N) else None
            if lp is not None and not (lp.a.get("size") == 1 and not lp.a.get("signed")):
                return (f"the length of a COSEM {'octet' if key.value == 9 else 'visible'} string is parsed as `{lp.a.get('type')}` instead of one unsigned octet: texts of 128..255 characters "
                        "are misread (the following octets are taken as part of the length)")
        for i, a in enumerate(alts):
            if not isinstance(a, N):
                continue
            is_dt = a is dt or a.ident == dt.ident or (a.src == dt.src and a.kind == dt.kind)
            ks = kinds(a)
            is_text = ks == {"str"}
            if key.value == 9 and is_dt and i == 0:
                continue
            if is_text and i == len(alts) - 1:
                continue
            what = a.src or a.name or a.kind
            return (f"a COSEM {'octet' if key.value == 9 else 'visible'} string is offered to `{what}` (alternative #{i}) before it is taken as text: identification texts whose octets "
                    "happen to fit that alternative are not stored verbatim")
    return None


# ------------------------------------------------------------------ the P1 identification line (dlde.Ident)
IDENT_SAMPLES = [  # line, manufacturer id, identification (None: absent) -- IEC 62056-21 6.3.3: '/' XXX Z [\\W]* identification
    ("/LGF5E360", "LGF", "E360"),
    ("/ISk5\\2MT382-1000", "ISk", "MT382-1000"),
    ("/KFM5", "KFM", None),
    ("/ADN9 7534", "ADN", " 7534"),
    ("/AUX5\\A\\bTYPE 1", "AUX", "TYPE 1"),
]
IDENT_REJECTS = ["", "LGF5E360", "/lgf5E360", "/LG5E360", "/LGFXE360", "1-0:1.8.0(1*kWh)", "!", "/LGF5" + "x" * 17]


def ident_pattern(M, ce, mod="dlde"):
    """(pattern text, method) of the compiled regex the Ident constructor matches its line with -- found in __init__ or the helpers it calls"""
    I = M.classes.get((mod, "Ident"))
    if I is None or "__init__" not in I.methods:
        return None
    tree = M.mods[mod]
    funcs = {n.name: n for n in ast.walk(tree) if isinstance(n, (ast.FunctionDef, ast.AsyncFunctionDef))}
    seen, work, found = set(), [I.methods["__init__"].node], []
    while work:
        f = work.pop()
        if id(f) in seen:
            continue
        seen.add(id(f))
        for n in ast.walk(f):
            if not isinstance(n, ast.Call):
                continue
            if isinstance(n.func, ast.Attribute) and n.func.attr in ("match", "fullmatch", "search") and isinstance(n.func.value, ast.Name):
                init = M.mod_consts.get(mod, {}).get(n.func.value.id)
                if isinstance(init, ast.Call) and init.args and not init.keywords and len(init.args) == 1 and "compile" in ast.unparse(init.func):
                    try:
                        pat = ce.eval(init.args[0], {}, mod)
                    except NotConstant:
                        continue
                    if isinstance(pat, str):
                        found.append((pat, n.func.attr))
            if isinstance(n.func, ast.Name):
                # a module-level name bound to `<compiled pattern>.match`
                b_ = M.mod_consts.get(mod, {}).get(n.func.id)
                if isinstance(b_, ast.Attribute) and b_.attr in ("match", "fullmatch", "search") and isinstance(b_.value, ast.Name):
                    init = M.mod_consts.get(mod, {}).get(b_.value.id)
                    if isinstance(init, ast.Call) and init.args and not init.keywords and len(init.args) == 1 and "compile" in ast.unparse(init.func):
                        try:
                            pat = ce.eval(init.args[0], {}, mod)
                        except NotConstant:
                            pat = None
                        if isinstance(pat, str):
                            found.append((pat, b_.attr))
            nm = n.func.id if isinstance(n.func, ast.Name) else n.func.attr if isinstance(n.func, ast.Attribute) else None
            if nm in funcs and len(seen) < 12:
                work.append(funcs[nm])
    if len(set(found)) != 1:
        return None
    return found[0]


def ident_findings(M, mod="dlde"):
    """Ident on sample lines (E-ABS): constructor accepts exactly the matching lines (ValueError otherwise); manufacturer_id / identification / str();
    returns a list of (tag, text)"""
    from sa.abseval import AbsEval
    from sa.report import Undecided
    I = M.classes.get((mod, "Ident"))
    if I is None:
        raise Undecided("anchor vanished: dlde.Ident")
    AE = AbsEval(M)
    out = []

    def run(f):
        try:
            return ("value", f())
        except Exception as ex:  # AbsRaise / NotConstant / SymbolicBranch
            nm = type(ex).__name__
            if nm == "AbsRaise":
                return ("raise", ex.cls)
            return ("undecided", f"{nm}: {ex}")
    for line, man, ident in IDENT_SAMPLES:
        r = run(lambda: AE.instantiate((mod, "Ident"), [line]))
        if r[0] == "undecided":
            raise Undecided(f"Ident({line!r}) outside the interpreted subset: {r[1]}")
        if r[0] == "raise":
            out.append(("ident-rejects", f"Ident({line!r}) raises {r[1]} for a well-formed identification line"))
            continue
        obj = r[1]
        for prop, want, tag in (("manufacturer_id", man, "ident-group"), ("identification", ident, "ident-group"), ("__str__", line, "ident-str")):
            fn = M.find_method((mod, "Ident"), prop)
            if fn is None:
                out.append((tag, f"Ident.{prop} is gone"))
                continue
            pr = AE.apply(fn, [obj])
            if pr[0] in ("undecided", "branch"):
                raise Undecided(f"Ident.{prop} outside the interpreted subset: {pr[1]}")
            got = pr[1] if pr[0] == "value" else f"<raises {pr[1]}>"
            if got != want:
                out.append((tag, f"Ident({line!r}).{prop} gives {got!r} instead of {want!r}"))
    for line in IDENT_REJECTS:
        r = run(lambda: AE.instantiate((mod, "Ident"), [line]))
        if r[0] == "undecided":
            raise Undecided(f"Ident({line!r}) outside the interpreted subset: {r[1]}")
        if r != ("raise", "ValueError"):
            out.append(("no-raise", f"Ident({line!r}) {'is accepted' if r[0] == 'value' else 'raises ' + str(r[1])} instead of raising ValueError"))
        st = M.find_method((mod, "Ident"), "is_ident_line")
    st = M.find_method((mod, "Ident"), "is_ident_line")
    if st is not None:
        for line, want in [(l, True) for l, _, _ in IDENT_SAMPLES] + [(l, False) for l in IDENT_REJECTS]:
            pr = AE.apply(st, [line])
            if pr[0] in ("undecided", "branch"):
                raise Undecided(f"Ident.is_ident_line outside the interpreted subset: {pr[1]}")
            if pr != ("value", want):
                out.append(("is-ident-line", f"Ident.is_ident_line({line!r}) gives {pr[1]!r} instead of {want}"))
    return out


class ResultLog:
    """the dictionaries one interpreter state returned for a sequence of decodes: each must be an object of its own that later decodes leave alone"""

    def __init__(self):
        self.items = []

    def add(self, desc, got):
        if isinstance(got, dict):
            self.items.append((desc, got, dict(got)))

    def finding(self):
        for i, (d, g, snap) in enumerate(self.items):
            for d2, g2, _ in self.items[i + 1:]:
                if g2 is g:
                    return (f"the dictionary returned for one message is the same object that a later decode refills: a result the caller keeps changes when the next message is decoded",
                            f"result of the {d} is the object returned again for the {d2}")
            if dict(g) != snap:
                return ("a dictionary returned earlier is modified by a later decode", f"result of the {d} changed afterwards")
        return None
