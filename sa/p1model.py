"""Per-line decision table of dlde.ModeDReader.read (E-PATH) with role-bound atoms, the reference line automaton and
the guard/trim/boundedness analyses.  Shared by C05, C14, C16 (R3) and C19 (P1 part)."""
from __future__ import annotations

import ast
from dataclasses import dataclass, field

from sa.consteval import ConstEval
from sa.hdlcref import Result, _eval_order
from sa.model import Model
from sa.paths import Engine, Path, Unsupported, loop_iterations, show_path, show_sv
from sa.report import Undecided
from sa.seqbuf import BufSem

MOD = "dlde"
READER = (MOD, "ModeDReader")
READOUT = (MOD, "DataReadout")
SELF = ("self0",)
SLASH, BANG, LF = 0x2F, 0x21, 0x0A
LIMIT_MIN = 8191


@dataclass
class P1Post:
    raw_ops: list = field(default_factory=list)  # 'clear' | ('extend','line') | ('other',txt)
    hunt: object = None  # None | True | False | 'other'
    emitted: list = field(default_factory=list)  # 'raw' (DataReadout(bytes(raw store))) | 'other:<txt>'
    buf_calls: list = field(default_factory=list)  # pop | trim-pos | trim-flag | clear | other:<name>
    other: list = field(default_factory=list)
    seq: list = field(default_factory=list)
    returns: bool = False

    def brief(self):
        b = []
        if self.raw_ops:
            b.append("lines:" + ",".join(o if isinstance(o, str) else f"{o[0]}({o[1]})" for o in self.raw_ops))
        if self.hunt is not None:
            b.append(f"hunt'={self.hunt}")
        if self.emitted:
            b.append("emit " + ",".join(self.emitted))
        b.append("buffer:" + ",".join(self.buf_calls))
        if self.other:
            b.append("other " + ";".join(self.other))
        if self.returns:
            b.append("return")
        return " ".join(b)


@dataclass
class P1Path:
    lits: dict
    unknown: list
    post: P1Post
    path: Path
    guard_info: dict = field(default_factory=dict)

    def guard_text(self):
        t = [(a if v else "!" + a) for a, v in self.lits.items()]
        t += [("" if pol else "!") + "?" + txt for txt, pol, _ in self.unknown]
        return " & ".join(t)


def _ascii_only(tree):
    """every atom of the parsed pattern can only match octets < 0x80 (no negated class, no dot, no category that bytes patterns extend beyond ASCII)"""
    for op, av in tree:
        o = str(op)
        if o == "LITERAL":
            if av >= 0x80:
                return False
        elif o in ("NOT_LITERAL", "ANY"):
            return False
        elif o == "IN":
            for o2, a2 in av:
                s2 = str(o2)
                if s2 == "NEGATE":
                    return False
                if s2 == "LITERAL" and a2 >= 0x80:
                    return False
                if s2 == "RANGE" and a2[1] >= 0x80:
                    return False
                if s2 == "CATEGORY" and "NOT" in str(a2):
                    return False
        elif o == "CATEGORY":
            if "NOT" in str(av):
                return False
        elif o in ("MAX_REPEAT", "MIN_REPEAT", "POSSESSIVE_REPEAT"):
            if not _ascii_only(av[2]):
                return False
        elif o == "SUBPATTERN":
            if not _ascii_only(av[3]):
                return False
        elif o == "BRANCH":
            if not all(_ascii_only(b) for b in av[1]):
                return False
        elif o == "AT":
            pass
        else:
            return False
    return True


class P1Model:
    _CACHE = {}

    def __new__(cls, src):
        """one model per source set (the checks and the clauses they import from each other all read the same model)"""
        ent = cls._CACHE.get(id(src))
        if ent is not None and ent[0] is src:
            if isinstance(ent[1], Exception):
                raise ent[1]
            return ent[1]
        obj = super().__new__(cls)
        try:
            obj._build(src)
        except Exception as ex:
            from sa.report import ModelViolation, Undecided
            if isinstance(ex, (ModelViolation, Undecided)):
                cls._CACHE[id(src)] = (src, ex)
            raise
        cls._CACHE[id(src)] = (src, obj)
        return obj

    def __init__(self, src):
        pass

    def _build(self, src):
        self.src = src
        self.M = Model(src)
        M = self.M
        if READER not in M.classes:
            raise Undecided("anchor vanished: dlde.ModeDReader")
        self.reader = M.classes[READER]
        if "read" not in self.reader.methods:
            raise Undecided("anchor vanished: ModeDReader.read")
        self.read_fn = self.reader.methods["read"]
        self.file = src.file(MOD)
        self._bind()
        self.engine = Engine(M, inline_depth=10)
        self.buf = BufSem(M, self.buffer_cls)
        if self.buf.err:
            raise Undecided(f"P1 input buffer: {self.buf.err}")
        try:
            it = loop_iterations(self.engine, self.read_fn)
        except Unsupported as ex:
            raise Undecided(f"ModeDReader.read uses a statement outside the analysed subset: {ex}")
        if it is None:
            raise Undecided("ModeDReader.read is not `prologue; one loop over the buffered lines; epilogue`")
        self.loop, conts, leaving, _ = it
        self.paths = [x for x in (self._classify(p) for p in conts + leaving) if x is not None]
        lp_ = getattr(self, "loop", None)
        if isinstance(lp_, ast.For) and any(isinstance(n_, ast.Attribute) and n_.attr == self.buffer for n_ in ast.walk(lp_.iter)):
            # the step model is "one line popped from the input buffer per iteration": a loop driven in another way (a generator of lines, a split) is outside it
            raise Undecided("the per-line loop of ModeDReader.read does not take its lines from a pop operation of the input buffer (the step model does not apply)")

    def bkind(self, callee):
        return self.buf.kind(callee.split(".")[-1], (LF, SLASH))

    def btag(self, callee):
        k = self.bkind(callee)
        if isinstance(k, tuple):
            return {"pop-line": "pop", "trim-needle": "trim-flag"}[k[0]]
        return {"trim-pos": "trim-pos", "clear": "clear", "extend": "extend", "len": "len"}.get(k, "other:" + callee.split(".")[-1])

    def _bind(self):
        c = self.reader
        self.hunt = None
        p = c.methods.get("is_in_hunt_mode")
        if p is not None:
            for n in ast.walk(p.node):
                if isinstance(n, ast.Return) and isinstance(n.value, ast.Attribute) and isinstance(n.value.value, ast.Name) and n.value.value.id == "self":
                    self.hunt = n.value.attr
        chunk = self.read_fn.params[0] if self.read_fn.params else None
        self.buffer = None
        try:
            for p in Engine(self.M).run(self.read_fn):
                for e in p.effects:
                    if e[0] == "callm" and e[3] == (("p", chunk),) and e[1][0] == "f0" and e[1][1] == SELF:
                        self.buffer = e[1][2]
        except Unsupported as ex:
            raise Undecided(f"ModeDReader.read uses a statement outside the analysed subset: {ex}")
        raws = [a for a, v in c.field_inits.items() if isinstance(v, ast.Call) and isinstance(v.func, ast.Name) and v.func.id == "bytearray" and a != self.buffer]
        self.raw = raws[0] if len(raws) == 1 else None
        for nm_, l1_, l2_ in self.M.shared_mutable_state(READER):
            from sa.report import ModelViolation
            raise ModelViolation("dlde.ModeDReader", f"shared-class-state:{nm_}", f"`{nm_}` is a mutable container created once in the class body and modified in place through self.{nm_} "
                                 f"(line {l2_}) without ever being bound per instance: all reader objects share it, so what one reader has received changes what another one does", self.src.file(MOD), l1_)
        if not (self.hunt and self.buffer and self.raw):
            raise Undecided(f"cannot bind P1 reader roles: hunt={self.hunt} buffer={self.buffer} lines={self.raw}")
        self.buffer_cls = c.field_types.get(self.buffer)
        if self.buffer_cls is None:
            raise Undecided("P1 buffer class not resolved")

    def f0(self, n):
        return ("f0", SELF, n)

    def is_line(self, sv):
        return sv[0] == "call" and len(sv) > 2 and sv[2] and sv[2][0] == self.f0(self.buffer) and isinstance(sv[1], str) and sv[1].startswith(f"{MOD}.{self.buffer_cls[1]}.") \
            and self.btag(sv[1]) == "pop"

    def mentions(self, sv, pred):
        if isinstance(sv, tuple):
            if pred(sv):
                return True
            return any(self.mentions(x, pred) for x in sv if isinstance(x, tuple))
        return False

    def _atom(self, g, pol, pp):
        hunt0 = self.f0(self.hunt)
        if g == hunt0 or (g[0] == "prop" and g[1] == SELF and g[2] == "is_in_hunt_mode"):
            return "Hm", pol
        if g[0] == "cmp":
            op, a, b = g[1], g[2], g[3]
            if op in ("Is", "Eq") and self.is_line(a) and b == ("c", None):
                return "N", pol
            if op == "Eq" and a[0] == "sub" and self.is_line(a[1]) and a[2] == ("c", 0) and b[0] == "c":
                if b[1] == SLASH:
                    return "Sl", pol
                if b[1] == BANG:
                    return "En", pol
            if op in ("LtE", "Lt") and b[0] == "c" and isinstance(b[1], int):
                # length guard: a sum of len() terms over buffer / collected lines
                terms = self._len_terms(a)
                if terms is not None:
                    thr = b[1] if op == "LtE" else b[1] - 1
                    if pp.guard_info and (pp.guard_info["terms"], pp.guard_info["limit"]) != (terms, thr):
                        return None  # another length test than the guard already seen on this path: an ordinary condition
                    pp.guard_info = {"terms": terms, "limit": thr, "sv": a}
                    return "G", (not pol)
        if g[0] == "call" and g[1] == ".isascii" and g[2] and self.is_line(g[2][0]):
            return "As", pol
        # other spellings of "the first octet of the (never empty) line is '/' / '!'": line.startswith(b"/"), line[:1] == b"/"
        first = None
        if g[0] == "call" and g[1] == ".startswith" and len(g[2]) == 2 and self.is_line(g[2][0]) and g[2][1][0] == "c":
            first = g[2][1][1]
        elif g[0] == "cmp" and g[1] == "Eq" and g[2][0] == "slice" and self.is_line(g[2][1]) and g[2][2] in (None, ("c", 0)) and g[2][3] == ("c", 1) and g[3][0] == "c":
            first = g[3][1]
        if isinstance(first, (bytes, bytearray)) and len(first) == 1:
            if first[0] == SLASH:
                return "Sl", pol
            if first[0] == BANG:
                return "En", pol
        if self.mentions(g, lambda s: s[0] == "call" and isinstance(s[1], str) and (s[1].endswith("is_ident_line") or s[1] == ".match")) and \
                self.mentions(g, lambda s: self.is_line(s)):
            return "Id", pol
        return None

    def _id_implies(self, g):
        """literals implied by a successful identification match `g` (see _classify)"""
        memo = self.__dict__.setdefault("_id_imp_memo", {})
        key = repr(g)
        if key in memo:
            return memo[key]
        out = set()
        try:
            from sa.abseval import AbsEval
            from sa.consteval import ConstEval
            pats = []
            A = AbsEval(self.M)

            def walk(sv):
                if isinstance(sv, tuple):
                    if sv and sv[0] == "call" and sv[1] in (".match", ".fullmatch") and sv[2] and isinstance(sv[2][0], tuple) and sv[2][0][0] == "g":
                        v = A.module_env("dlde").get(sv[2][0][1])
                        pt = A.regex_of(v, "dlde") if v is not None else None
                        if pt is not None:
                            pats.append((pt, self.is_line(sv[2][1]) if len(sv[2]) > 1 else False))
                    for x in sv:
                        walk(x)
            walk(g)
            if not pats and self.mentions(g, lambda s_: s_[0] == "call" and isinstance(s_[1], str) and s_[1].endswith("is_ident_line")):
                from sa.decoders import ident_pattern
                pm = ident_pattern(self.M, ConstEval(self.M), "dlde")
                if pm is not None and pm[1] in ("match", "fullmatch"):
                    pats.append((pm[0], False))
            for pt, on_raw_line in pats:
                text = pt.decode("latin-1") if isinstance(pt, bytes) else pt
                import re._parser as _rp
                tree = _rp.parse(text)
                items = [x for x in tree if str(x[0]) != "AT"]
                if items and str(items[0][0]) == "LITERAL" and items[0][1] == SLASH:
                    out.add("Sl")
                if isinstance(pt, bytes) and on_raw_line and _ascii_only(tree):
                    out.add("As")
        except Exception:  # noqa - nothing implied
            out = set()
        memo[key] = out
        return out

    def _len_terms(self, a):
        """a = len(buffer)#v [+ len(lines)] -> list of ('buffer', ver) / ('lines',) ; else None"""
        out = []

        def rec(x):
            if x[0] == "op" and x[1] == "Add":
                return rec(x[2]) and rec(x[3])
            if x[0] == "len":
                if x[1] == self.f0(self.buffer):
                    out.append(("buffer", x[2] if len(x) > 2 else 0))
                    return True
                base = x[1]
                while base[0] == "mut":
                    base = base[1]
                if base == self.f0(self.raw):
                    out.append(("lines",))
                    return True
            return False

        return out if rec(a) and out else None

    def _classify(self, p: Path):
        pp = P1Path({}, [], P1Post(), p)
        for g, pol, ln in p.guards:
            if g == ("c", True):
                continue
            a = self._atom(g, pol, pp)
            if a is None:
                pp.unknown.append((show_sv(g), pol, g))
            else:
                n, v = a
                if n in pp.lits and pp.lits[n] != v:
                    return None
                pp.lits[n] = v
                if n == "Id" and v is True:
                    # what a successful match of the identification pattern implies about the line: its first octet (the pattern begins with '/'), and - for a
                    # bytes pattern made of ASCII atoms only, applied to the raw line - that the line is ASCII
                    for n2 in self._id_implies(g):
                        if pp.lits.get(n2) is False:
                            return None
                        pp.lits.setdefault(n2, True)
        post = pp.post
        post.returns = p.status == "return"
        if p.status not in ("run", "return", "continue", "break"):
            post.other.append(f"status {p.status}")
        for e in p.effects:
            k = e[0]
            if k in ("log", "loop", "try"):
                continue
            if k == "callm" and e[1] == self.f0(self.buffer):
                tag = self.btag(e[2])
                post.buf_calls.append(tag)
                post.seq.append(tag)
                continue
            if k == "write" and e[1] == SELF and e[2] == self.hunt:
                post.hunt = e[3][1] if e[3][0] == "c" and isinstance(e[3][1], bool) else "other"
                post.seq.append(f"hunt={post.hunt}")
                continue
            if k == "write" and e[1] == SELF and e[2] == self.buffer:
                post.buf_calls.append("other:rebind")
                post.seq.append("other:rebind")
                continue
            if k == "mutate":
                base = e[1]
                while base[0] == "mut":
                    base = base[1]
                if base == self.f0(self.raw):
                    if e[2] == "clear":
                        post.raw_ops.append("clear")
                    elif e[2] == "extend" and e[3] and self.is_line(e[3][0]):
                        post.raw_ops.append(("extend", "line"))
                    else:
                        post.raw_ops.append(("other", f"{e[2]}({', '.join(show_sv(x) for x in e[3])})"))
                    post.seq.append("lines")
                    continue
                if base[0] in ("g", "l") and e[2] == "append" and e[3]:
                    v = e[3][0]
                    ok = (v[0] == "new" and v[1] == READOUT and len(v) > 3 and len(v[3]) == 1 and v[3][0][0] == "call" and v[3][0][1] == "bytes"
                          and len(v[3][0][2]) == 1 and self._is_raw_with_line(v[3][0][2][0]))
                    post.emitted.append("raw" if ok else "other:" + show_sv(v))
                    post.seq.append("emit")
                    continue
                post.other.append(f"{show_sv(base)}.{e[2]}")
                continue
            if k == "call" and isinstance(e[1], str) and e[1].endswith(".decode"):
                continue
            if k == "write":
                post.other.append(f"write {show_sv(e[1])}.{e[2]}")
                continue
            if k in ("callm", "call", "setitem", "raise"):
                post.other.append(f"{k} {e[1] if isinstance(e[1], str) else show_sv(e[1])}" + (f" {e[2]}" if k == "callm" else ""))
                continue
        return pp

    def _is_raw_with_line(self, sv):
        """the collected-lines store after extending it with the current line (and nothing else)"""
        return sv[0] == "mut" and sv[1] == self.f0(self.raw) and sv[2] == "extend" and len(sv[3]) == 1 and self.is_line(sv[3][0])

    def matching(self, alts):
        out = []
        for pp in self.paths:
            for alt in alts:
                # 'As' (line.isascii()) is an optional refinement of the ident test: an alternative that needs it false only applies to paths that test it
                if all((pp.lits.get(a, v) == v) and not (a == "As" and v is False and a not in pp.lits) for a, v in alt.items()):
                    out.append(pp)
                    break
        return out


def ploc(m, pp):
    return pp.path.guards[-1][2] if pp.path.guards else m.read_fn.node.lineno


# ------------------------------------------------------------------------------------------------ reference line automaton
def _nobuf(post):
    extra = [c for c in post.buf_calls if c != "pop"]
    if post.buf_calls.count("pop") != 1:
        return f"step pops {post.buf_calls.count('pop')} lines"
    if extra:
        return f"buffer is modified in a line step ({extra})"
    if post.other:
        return f"unexpected effect {post.other}"
    if post.returns:
        return "returns before the buffered lines are exhausted"
    return None


def exp_ident(post, pp):
    c = _nobuf(post)
    if c:
        return c
    if post.raw_ops != [("extend", "line")]:
        return f"identification line must be kept as the first collected line (lines ops {post.raw_ops})"
    if post.hunt is not False:
        return f"identification line must leave hunt mode (hunt'={post.hunt})"
    if post.emitted:
        return "identification line must not emit"
    return None


def exp_ignore(post, pp):
    c = _nobuf(post)
    if c:
        return c
    if post.raw_ops or post.emitted or post.hunt is False:
        return f"a line that is not an identification line must be ignored while hunting ({post.brief()})"
    return None


def exp_end(post, pp):
    c = _nobuf(post)
    if c:
        return c
    if post.emitted != ["raw"]:
        return f"end line must emit one readout built from exactly the collected lines including the end line (emitted {post.emitted})"
    if post.raw_ops != [("extend", "line"), "clear"]:
        return f"end line must be kept, then the collected lines cleared (lines ops {post.raw_ops})"
    if post.hunt is not True:
        return f"after the end line the reader must return to hunt mode (hunt'={post.hunt})"
    return None


def exp_keep(post, pp):
    c = _nobuf(post)
    if c:
        return c
    if post.raw_ops != [("extend", "line")]:
        return f"a data line must be kept (lines ops {post.raw_ops})"
    if post.emitted or post.hunt is not None:
        return f"a data line must neither emit nor change mode ({post.brief()})"
    return None


ROWS = [
    ("ident", "identification line while hunting starts collecting", [{"N": False, "Hm": True, "Sl": True, "As": True, "Id": True}], exp_ident),
    ("ignore-nonslash", "line not starting with '/' is ignored while hunting", [{"N": False, "Hm": True, "Sl": False}], exp_ignore),
    ("ignore-nonident", "'/' line that is no identification line is ignored while hunting", [{"N": False, "Hm": True, "Sl": True, "Id": False}, {"N": False, "Hm": True, "Sl": True, "As": False}], exp_ignore),
    ("end", "end line completes the readout", [{"N": False, "Hm": False, "En": True}], exp_end),
    ("keep", "data line is collected", [{"N": False, "Hm": False, "En": False}], exp_keep),
]


from sa.hdlcref import _memo_on_model  # noqa: E402


def _pure_line_predicate(m, g):
    """the condition reads nothing but the line popped in this step (and constants / module-level constants)"""
    seen = [False]

    def ok(sv):
        if not isinstance(sv, tuple) or not sv:
            return True
        if m.is_line(sv):
            seen[0] = True
            return True
        t = sv[0]
        if t == "c":
            return True
        if t == "g":
            return True  # a module-level name (a compiled pattern, a constant)
        if t in ("l", "p", "havoc", "new", "iter", "f0", "prop"):
            return False
        return all(ok(x) for x in sv[1:] if isinstance(x, tuple))
    return ok(g) and seen[0]


@_memo_on_model
def conformance(m: P1Model):
    res = []
    for rid, desc, alts, exp in ROWS:
        ps = m.matching(alts)
        if not ps:
            res.append(Result("bad", "row:" + rid, rid, f"no path of the line step handles '{desc}'", m.read_fn.node.lineno))
            continue
        nb = 0
        for pp in ps:
            why = exp(pp.post, pp)
            if why:
                nb += 1
                unk = f" (under unrecognised condition(s) {[t for t, _, _ in pp.unknown]}, treated as free)" if pp.unknown else ""
                # an unrecognised condition that only looks at the popped line may be another spelling of the line literals that define the row (first octet, ASCII,
                # identification match): whether this path belongs to the row is then not known
                line_pred = bool(pp.unknown) and all(_pure_line_predicate(m, g_) for _, _, g_ in pp.unknown)
                res.append(Result("und" if line_pred else "bad", "row:" + rid, rid, f"{desc}: {why}{unk}", ploc(m, pp), witness=f"[{pp.guard_text()}] => {pp.post.brief()}"))
        if not nb:
            res.append(Result("ok", "row:" + rid, rid, f"{len(ps)} path(s) conform: {desc}"))
    return res


@_memo_on_model
def exit_and_guard(m: P1Model):
    """Exit rows (no complete line): consumed input released, guard measures unconsumed bytes + collected lines, trip path clears both and hunts."""
    res = []
    fn = m.read_fn
    exits = [pp for pp in m.paths if pp.post.returns]
    if not exits:
        res.append(Result("undecided", "exit", "none", "no returning path found in the read loop"))
        return res
    for pp in exits:
        if pp.lits.get("N") is not True:
            res.append(Result("bad", "exit", "early-return", "read() returns although a complete line was popped (remaining buffered lines are not processed in this call)", ploc(m, pp), witness=f"[{pp.guard_text()}]"))
    # prologue: guards evaluated before the loop
    E = Engine(m.M)
    pro = E.run(fn)
    pro_guard = []
    for p in pro:
        for g, pol, ln in p.guards:
            dummy = P1Path({}, [], P1Post(), p)
            a = m._atom(g, pol, dummy)
            if a and a[0] == "G":
                pro_guard.append((dummy.guard_info, ln, p, a[1]))
    all_exit_trim = all(any(c in ("trim-pos", "trim-flag", "clear") for c in pp.post.buf_calls[pp.post.buf_calls.index("pop") + 1:] if True) if "pop" in pp.post.buf_calls else False for pp in exits)
    # R: consumed input released on every exit
    for pp in exits:
        after = pp.post.buf_calls[pp.post.buf_calls.index("pop") + 1:] if "pop" in pp.post.buf_calls else pp.post.buf_calls
        if any(c in ("trim-pos", "trim-flag", "clear") for c in after):
            res.append(Result("ok", "release", pp.guard_text(), "consumed lines are dropped from the buffer before read() returns"))
        else:
            res.append(Result("bad", "release", "no-trim-on-exit", "read() returns without releasing the consumed part of the buffer", ploc(m, pp), witness=f"[{pp.guard_text()}] => {pp.post.brief()}"))
    # every exit of read() evaluates the guard (unless the prologue did on every call)
    if not pro_guard:
        for pp in exits:
            if "G" not in pp.lits and pp.lits.get("N") is True:
                # an unrecognised ordering test that looks at the buffer / the collected lines may well be the guard written in another way (`unread_length`, a cached sum)
                maybe = any(g_[0] == "cmp" and g_[1] in ("Lt", "LtE", "Gt", "GtE") and m.mentions(g_, lambda s_: s_ in (m.f0(m.buffer), m.f0(m.raw))) for _, _, g_ in pp.unknown)
                res.append(Result("und" if maybe else "bad", "cap", "exit-without-guard", "read() can return without evaluating the length guard: on a stream whose chunks end where this exit is taken the collected lines grow without bound",
                                  ploc(m, pp), witness=f"[{pp.guard_text()}] => {pp.post.brief()}"))
    # guard sites
    guards = [(pp.guard_info, ploc(m, pp), pp, pp.lits["G"]) for pp in exits if "G" in pp.lits]
    sites = {}
    for gi, ln, owner, val in guards + pro_guard:
        sites.setdefault(ln, []).append((gi, owner, val))
    if not sites and any(g_[0] == "cmp" and g_[1] in ("Lt", "LtE", "Gt", "GtE") and m.mentions(g_, lambda s_: s_ in (m.f0(m.buffer), m.f0(m.raw))) for pp in exits for _, _, g_ in pp.unknown):
        res.append(Result("und", "cap", "no-guard", "no length guard in a recognised form (an ordering test on the buffer / the collected lines that the rule cannot read is present)", fn.node.lineno))
        return res
    elif not sites:
        res.append(Result("bad", "cap", "no-guard", "no length guard on buffered/collected data: an unterminated line or readout is retained without bound", fn.node.lineno))
        return res
    for ln, lst in sites.items():
        gi = lst[0][0]
        limit = gi["limit"]
        if limit < LIMIT_MIN:
            res.append(Result("bad", "limit", f"limit {limit}", f"length guard trips above {limit} bytes: readouts below 8 KiB are discarded", ln, witness=f"limit {limit} < {LIMIT_MIN}"))
        else:
            res.append(Result("ok", "limit", f"limit {limit}", f"guard limit {limit} >= {LIMIT_MIN}"))
        # what is measured: buffer term must be evaluated when the position is zero (after a trim with no pop since)
        for term in gi["terms"]:
            if term[0] != "buffer":
                continue
            ver = term[1]
            for _, owner, _ in lst[:1]:
                if isinstance(owner, P1Path):
                    calls = owner.post.buf_calls[:ver]
                    zero = bool(calls) and calls[-1] in ("trim-pos", "trim-flag", "clear")
                    if not calls:
                        zero = False
                        calls = ["<loop entry>"]
                else:
                    # prologue guard: position state at call entry = exit state of the previous call
                    calls = [c for e in owner.effects if e[0] == "callm" and e[1] == m.f0(m.buffer) for c in [m.btag(e[2])]][:ver]
                    if calls:
                        zero = calls[-1].startswith("trim") or calls[-1] == "clear"
                    else:
                        zero = all_exit_trim
                        calls = ["<state left by the previous read() call>"]
                if zero or _len_subtracts_pos(m):
                    res.append(Result("ok", "unconsumed", f"guard@{'exit' if isinstance(owner, P1Path) else 'entry'}", "the guard measures only unconsumed bytes (position is zero where it is evaluated)"))
                else:
                    res.append(Result("bad", "unconsumed", "guard-counts-consumed", "the length guard measures the whole buffer including lines already consumed: on a long clean stream it trips although every readout is short",
                                      ln, witness=f"buffer calls before the guard: {calls}"))
    # trip path effects
    trips = [pp for pp in exits if pp.lits.get("G") is True]
    for gi, ln, p, val in pro_guard:
        pass
    if not trips and not pro_guard:
        res.append(Result("bad", "cap", "no-trip-path", "length guard has no trip path", fn.node.lineno))
    for pp in trips:
        post = pp.post
        probs = []
        if "clear" not in post.raw_ops:
            probs.append(("lines-kept", "the guard's trip path does not clear the collected lines: the measured quantity stays above the limit, the guard trips on every later call and no readout is ever delivered again (and the store is not bounded)"))
        if post.hunt is not True:
            probs.append(("no-hunt", f"the guard's trip path does not return to hunt mode (hunt'={post.hunt})"))
        g_at = len([c for c in post.buf_calls])  # calls after guard evaluation are those beyond the guard's buffer version
        ver = max([t[1] for t in pp.guard_info.get("terms", []) if t[0] == "buffer"] or [0])
        after = post.buf_calls[ver:]
        measures_buffer = any(t[0] == "buffer" for t in pp.guard_info.get("terms", []))
        if measures_buffer:
            if "clear" in after or "other:rebind" in after:
                pass
            elif "trim-flag" in after:
                probs.append(("trim-noop", "the guard's trip path only trims to the next start character: when the over-long line itself starts with '/' (always the case in hunt mode) nothing is dropped and the buffer keeps growing"))
            else:
                probs.append(("buffer-kept", "the guard's trip path does not shrink the buffer"))
        for key, txt in probs:
            res.append(Result("bad", "trip", key, txt, ploc(m, pp), witness=f"[{pp.guard_text()}] => {post.brief()}"))
        if not probs:
            res.append(Result("ok", "trip", pp.guard_text(), "trip path clears the collected lines, discards the over-long tail and returns to hunt mode"))
    # the guard must cover the collected lines (directly or through a buffer that still contains them)
    covers = any(any(t[0] == "lines" for t in gi["terms"]) for gi, _, _, _ in guards + pro_guard)
    if covers:
        res.append(Result("ok", "cap", "collected lines bounded", "the guard's measure includes the collected lines; it is evaluated on every call"))
    else:
        res.append(Result("bad", "cap", "lines-unbounded", "no guard measures the collected lines: identification line + endless data lines grow the store without bound", fn.node.lineno))
    return res


def _len_subtracts_pos(m):
    v = m.buf.check("__len__", "len")
    return v.ok is True and (v.info or {}).get("len") == "unconsumed"


@_memo_on_model
def skeleton(m: P1Model):
    res = []
    fn = m.read_fn
    chunk = fn.params[0]
    parents = {c: p for p in ast.walk(fn.node) for c in ast.iter_child_nodes(p)}
    uses = [n for n in ast.walk(fn.node) if isinstance(n, ast.Name) and n.id == chunk and isinstance(n.ctx, ast.Load)]
    def _in_test(u):
        """the use is part of the test of an if / conditional expression (judged per path below, by evaluating the test on representative chunks)"""
        c = u
        while c in parents:
            par = parents[c]
            if isinstance(par, (ast.If, ast.IfExp, ast.While)) and par.test is c:
                return True
            if isinstance(par, ast.stmt):
                return False
            c = par
        return False
    bad = []
    n_ext = 0
    for u in uses:
        p = parents.get(u)
        if isinstance(p, ast.Call) and isinstance(p.func, ast.Attribute) and p.args == [u] and not p.keywords:
            n_ext += 1
        elif not _in_test(u):
            bad.append(u)
    if bad or n_ext != 1:
        for u in bad or [fn.node]:
            res.append(Result("und", "chunk-flow", "chunk-use", "the chunk parameter is used for something other than extending the input buffer / deciding whether there is anything to do",
                              getattr(u, "lineno", fn.node.lineno), witness=ast.unparse(parents.get(u)) if parents.get(u) is not None else chunk))
    else:
        res.append(Result("ok", "chunk-flow", "data chunk", "flows only into the buffer's extend()"))
    E = Engine(m.M)
    hunt0 = m.f0(m.hunt)
    from sa import sveval
    PC = ("p", chunk)

    from sa.chunkcond import chunk_only as _co, taken_for as _tf

    def chunk_only(sv):
        return _co(sv, PC)

    def consts_env():
        env = {}
        try:
            from sa.consteval import ConstEval
            ce = ConstEval(m.M)
            for nm in m.M.mod_consts.get(MOD, {}):
                if nm.isupper():
                    try:
                        env[("g", nm)] = ce.module_value(MOD, nm)
                    except Exception:  # noqa
                        pass
        except Exception:  # noqa
            pass
        return env
    CENV = consts_env()
    EMPTY, NOLF, WLF = [b""], [b"A", b"/ABC5xyz", b"!12AB", b"1-0:1.8.0(1*kWh)", b"\r"], [b"\n", b"x\r\n", b"!\r\n", b"/ABC5x\r\n!\r\n", b"ab\ncd", b"\n/"]

    def taken_for(conds):
        """the sample chunks for which every chunk-only condition has the recorded outcome; None when one cannot be evaluated"""
        return _tf(conds, PC, EMPTY + NOLF + WLF, CENV)
    for p in E.run(fn):
        Hm = None
        unknown = []
        cconds = []
        first_buf = next((e for e in p.effects if e[0] == "callm" and e[1] == m.f0(m.buffer)), None)
        ext_first = first_buf is not None and first_buf[3] == (PC,)
        for g, pol, ln in p.guards:
            if ext_first and g[0] == "cmp" and g[1] in ("Eq", "NotEq", "Gt", "Lt", "GtE", "LtE") and g[2][0] == "len" and g[3][0] == "len" and g[2][1] == m.f0(m.buffer) == g[3][1] \
                    and {(g[2][2] if len(g[2]) > 2 else 0), (g[3][2] if len(g[3]) > 2 else 0)} == {0, 1}:
                # len(buffer) after extend(chunk) against len(buffer) before it: the difference is len(chunk)
                after_left = (g[2][2] if len(g[2]) > 2 else 0) == 1
                op_ = g[1] if after_left else {"Gt": "Lt", "Lt": "Gt", "GtE": "LtE", "LtE": "GtE"}.get(g[1], g[1])
                g = ("cmp", op_, ("len", PC, 0), ("c", 0))
            if g == hunt0 or (g[0] == "prop" and g[2] == "is_in_hunt_mode"):
                Hm = pol
            else:
                dummy = P1Path({}, [], P1Post(), p)
                a = m._atom(g, pol, dummy)
                if not a:
                    if m.mentions(g, lambda s_: s_ == PC) and chunk_only(g):
                        cconds.append((g, pol))
                    else:
                        unknown.append((show_sv(g), ln))
        taken = taken_for(cconds) if cconds else None
        seen_loop = False
        extended = False
        for e in p.effects:
            if e[0] == "loop":
                seen_loop = True
            if e[0] == "callm" and e[1] == m.f0(m.buffer):
                short = m.btag(e[2])
                if e[3] == (("p", chunk),):
                    extended = True
                    continue
                if short == "trim-flag" and not seen_loop:
                    if Hm is not True:
                        g_trip = any(isinstance(x, tuple) for x in ())  # placeholder
                        trip = any(m._atom(g, pol, P1Path({}, [], P1Post(), p)) == ("G", True) for g, pol, ln in p.guards)
                        if not trip:
                            res.append(Result("bad", "hunt-trim", "trim-outside-hunt", "buffered input is skipped to the next '/' although the reader is collecting a readout", e[-1]))
                    continue
            if e[0] == "write" and not (e[1] == SELF and e[2] == m.hunt):
                res.append(Result("bad", "skeleton", "state-change", "read() changes reader state outside the per-line step / guard", e[-1], witness=f"{show_sv(e[1])}.{e[2]}"))
        # while hunting, the noise in front of the next start character is cut off before the buffered input is split into lines
        # (otherwise "<noise>/ident" is one line that does not begin with '/', and the hunt rows ignore it: the readout is lost)
        if seen_loop and Hm is not False and not unknown:
            pre, ok_tags = [], True
            for e in p.effects:
                if e[0] == "loop":
                    break
                if e[0] == "callm" and e[1] == m.f0(m.buffer):
                    t_ = m.btag(e[2])
                    pre.append(t_)
                    ok_tags = ok_tags and not t_.startswith("other:")
            if ok_tags and "extend" in pre and "trim-flag" not in pre:
                res.append(Result("bad", "hunt-trim", "no-trim-before-lines", "in hunt mode read() splits the buffered input into lines without first skipping to the next start character: "
                                  "noise glued to the front of an identification line makes the whole readout invisible to the hunt rows", fn.node.lineno,
                                  witness="; ".join(f"{'' if pol else 'not '}{show_sv(g)}" for g, pol, _ in p.guards) + f" => buffer: {pre}"))
        # an empty chunk adds nothing to the stream: a call with it must leave a readout in progress alone
        if p.status == "return" and not seen_loop and Hm is not True and (not cconds or (taken and b"" in taken)) and not unknown:
            drops = []
            for e in p.effects:
                if e[0] == "write" and e[1] == SELF and e[2] == m.hunt and e[3] == ("c", True):
                    drops.append("goes back to hunt mode")
                elif e[0] in ("mutate", "callm") and e[1] == m.f0(m.raw) and str(e[2]).endswith("clear"):
                    drops.append("discards the lines collected so far")
                elif e[0] == "callm" and e[1] == m.f0(m.buffer) and m.btag(e[2]) in ("clear",):
                    drops.append("empties the input buffer")
            if drops and (cconds or True):
                res.append(Result("bad", "skeleton", "empty-chunk-state", "a read() call with an empty chunk changes the reader's state (" + ", ".join(dict.fromkeys(drops)) + "): the readouts returned depend "
                                  "on whether the splitting of the stream contains empty pieces", fn.node.lineno, witness="; ".join(f"{'' if pol else 'not '}{show_sv(g)}" for g, pol, _ in p.guards)))
        cw = "; ".join(f"{'' if pol else 'not '}{show_sv(g)}" for g, pol in cconds)
        if cconds and taken is None:
            res.append(Result("und", "skeleton", "chunk-condition", f"read() branches on a condition on the chunk that cannot be evaluated on representative chunks ({cw})", fn.node.lineno))
            continue
        if cconds and not taken:
            continue  # no representative chunk takes this path
        nonempty = [x for x in (taken or []) if x]
        if not extended:
            if cconds and not nonempty:
                pass  # only an empty chunk is not buffered
            elif cconds:
                res.append(Result("bad", "chunk-flow", "no-extend", "a non-empty chunk is not buffered", fn.node.lineno, witness=f"chunk {nonempty[0]!r} under [{cw}]"))
            else:
                res.append(Result("bad", "chunk-flow", "no-extend", "a path through read() does not buffer the chunk before the loop", fn.node.lineno))
        for t, ln in unknown:
            res.append(Result("und", "skeleton", "early-exit-condition", f"read() branches on a condition other than hunt mode / the length guard / the chunk before processing lines ({t})", ln))
        if p.status == "return" and not any(e[0] == "loop" for e in p.effects):
            wit = "; ".join(f"{'' if pol else 'not '}{show_sv(g)}" for g, pol, _ in p.guards)
            if not cconds:
                res.append(Result("bad" if not unknown else "und", "skeleton", "early-return", "read() can return before processing buffered lines", fn.node.lineno, witness=wit))
                continue
            lf = [x for x in taken if 10 in x]
            if nonempty and extended and not any(m._atom(g, pol, P1Path({}, [], P1Post(), p)) for g, pol, _ in p.guards if g[0] == "cmp" and g[1] in ("LtE", "Lt", "Gt", "GtE")):
                res.append(Result("bad", "growth", "early-return-unguarded", "a non-empty chunk is buffered and read() returns without evaluating the length guard: a stream of such chunks grows the buffer "
                                  "without bound", fn.node.lineno, witness=f"chunk {nonempty[0]!r} under [{cw}]"))
            if lf:
                res.append(Result("bad", "skeleton", "early-return", "read() returns without processing the buffered lines although the chunk completes a line: that line (the end of a readout) is "
                                  "delivered only if another call follows", fn.node.lineno, witness=f"chunk {lf[0]!r} under [{cw}]"))
            elif nonempty and any(g[0] == "cmp" and g[1] == "In" and g[2] in (("c", 10), ("c", b"\n")) and g[3] == PC and not pol for g, pol in cconds):
                pass  # the condition says the chunk has no line end: by induction no complete line is buffered, the loop would pop nothing
            elif nonempty:
                res.append(Result("und", "skeleton", "early-return", f"read() returns early for some chunks without a line end ([{cw}]); not proved that no chunk with a line end takes this path", fn.node.lineno))
            # only the empty chunk: nothing was added, nothing to do
    if not any(r.kind == "bad" and r.tag in ("skeleton", "hunt-trim") for r in res):
        res.append(Result("ok", "skeleton", "prologue", "before the loop read() only buffers the chunk and (while hunting) trims to the next start character"))
    loop = m.loop
    assigned = {n.id for s in loop.body for n in ast.walk(s) if isinstance(n, ast.Name) and isinstance(n.ctx, ast.Store)}
    order = list(_eval_order(loop.body))
    carried = []
    for name in assigned:
        for kind, n in order:
            if n == name:
                if kind == "load":
                    carried.append(name)
                break
    if carried:
        res.append(Result("bad", "locals", "carried-local", "a local of read() carries information across loop iterations", loop.lineno, witness=",".join(carried)))
    else:
        res.append(Result("ok", "locals", "loop locals", "no local of read() is live across loop iterations except the result list"))
    return res


BUF_INSTANCE = {"pop-line": "pop", "trim-pos": "trim-to-position", "trim-needle": "trim-to-start", "clear": "clear", "extend": "extend", "len": "len"}
BUF_TEXT = {"pop-line": "returns the next LF-terminated line and advances just behind it; returns None without consuming when no complete line is buffered",
            "trim-pos": "keeps exactly the unconsumed suffix and releases the consumed bytes",
            "trim-needle": "continues at the first '/' of the unconsumed input (drops everything if there is none) and releases what it skipped",
            "clear": "empties the buffer and resets the position", "extend": "appends the chunk at the end of the buffer", "len": "number of stored (or unconsumed) bytes"}


def buffer_usage(m: P1Model):
    buf0 = m.f0(m.buffer)
    use = {}
    chunk = m.read_fn.params[0] if m.read_fn.params else None
    paths = [pp.path for pp in m.paths] + Engine(m.M).run(m.read_fn)
    for p in paths:
        for e in p.effects:
            if e[0] == "callm" and e[1] == buf0:
                name = e[2].split(".")[-1]
                k = m.bkind(e[2])
                role = "extend" if e[3] == (("p", chunk),) else (k[0] if isinstance(k, tuple) else k)
                if role == "unknown":
                    # role from the name the reader calls (the class is private; this only selects which contract to report against)
                    role = "pop-line" if "pop" in name else "trim-needle" if ("flag" in name or "start" in name) else "trim-pos" if "trim" in name else "clear" if "clear" in name else "unknown"
                use.setdefault(name, set()).add(role)
        for g, pol, ln in p.guards:
            def walk(sv):
                if isinstance(sv, tuple):
                    if sv and sv[0] == "len" and sv[1] == buf0:
                        use.setdefault("__len__", set()).add("len")
                    for x in sv:
                        walk(x)
            walk(g)
    return use


@_memo_on_model
def buffer_contracts(m: P1Model):
    """E-SEQ: every buffer method the P1 reader uses satisfies the contract of its role (abstract evaluation, see sa/seqbuf.py)"""
    res = []
    B = m.buf
    seen = set()
    for name, roles in sorted(buffer_usage(m).items()):
        for role in sorted(roles):
            seen.add(role)
            if role == "unknown":
                res.append(Result("undecided", "buffer", name, f"buffer method {name}() used by the reader matches no known buffer operation"))
                continue
            inst = BUF_INSTANCE[role]
            v = B.check(name, role, LF if role == "pop-line" else SLASH if role == "trim-needle" else None)
            if v.ok is True and role == "trim-pos" and (v.info or {}).get("not_released"):
                res.append(Result("bad", "release", "trim-keeps-consumed", f"{name}() can return without dropping the consumed octets from the buffer: the retained input is not bounded by the unconsumed tail", v.line or 0))
            if v.ok is True:
                res.append(Result("ok", "buffer", inst, f"{name}(): {BUF_TEXT[role]}"))
            elif v.ok is False:
                res.append(Result("bad", "buffer", inst, f"input buffer, used as `{BUF_TEXT[role]}`: {v.why}", v.line, witness=v.witness))
            else:
                res.append(Result("undecided", "buffer", inst, v.why))
    for role in ("pop-line", "extend", "trim-pos", "trim-needle"):
        if role not in seen:
            res.append(Result("undecided", "buffer", BUF_INSTANCE[role], f"the reader does not use a buffer operation in the role `{BUF_TEXT[role]}`"))
    return res
