"""C01 R3/R4: the frame/header accessors equal the ISO/IEC 13239 layout, decided in frame worlds (E-ACC) plus the
address-scan loop rule."""
from __future__ import annotations

import ast

from sa.accsem import AccSem, Sym, World, worlds
from sa.bitlin import BV
from sa.paths import Engine, Path, Unsupported, NeedFork, show_sv
from sa.report import Undecided

SELF = ("self0",)


def _fmt(v):
    if isinstance(v, tuple) and v and isinstance(v[0], BV):
        return f"<{len(v)} octets>"
    if isinstance(v, tuple) and v and v[0] in ("eqbv", "nebv", "bit", "scan"):
        return f"{v[0]}:{v[1]}"
    return repr(v)


def reference(name, n, c, o, A):
    ff = o[0].shl(8).or_(o[1]) if n >= 2 else None
    if name == "frame_format":
        return ff
    if name == "frame_length":
        return None if ff is None else ff.and_(BV.const(0x7FF))
    if name == "frame_format_type":
        return None if ff is None else ff.shr(12).and_(BV.const(0xF))
    if name == "segmentation":
        return None if ff is None else ("bit", BV([ff.bit(11)]))
    if name == "control":
        return o[c] if c is not None and n > c else None
    if name == "header_check_sequence":
        return o[c + 1].shl(8).or_(o[c + 2]) if c is not None and n > c + 2 else None
    if name == "information_position":
        return None if c is None else c + 3
    if name == "payload":
        return tuple(o[c + 3:n][:-2] if n - (c + 3) >= 2 else ()) if c is not None and n > c + 3 else None
    if name == "as_bytes":
        return tuple(o[:n])
    if name == "__len__":
        return n
    if name == "is_expected_length":
        fl = None if ff is None else ff.and_(BV.const(0x7FF))
        return A._cmp("Eq", fl, n)
    raise KeyError(name)


def layout(rep, M, F, H, file, store, roles, FRAME, HEADER):
    # primary decision: frame worlds through the public API (E-ABS/BV) -- HdlcFrame() filled by append(), every accessor after every octet
    from sa.hdlcworlds import DESCR, RULE, frame_worlds
    fw = frame_worlds(M, FRAME, HEADER)
    if fw[0] == "ok":
        for name, cnt in sorted(fw[2].items()):
            rep.ok(RULE.get(name, "R4"), name, f"= {DESCR[name]} (symbolic octets; {cnt} prefixes of frames built through HdlcFrame.append, address lengths 1..5 / 1..4)")
            rep.count("accessors", 1)
        rep.count("frame_world_cells", fw[1])
    elif fw[0] == "bad":
        ck = FRAME if name_in(M, FRAME, fw[1]) and not name_in(M, HEADER, fw[1]) else HEADER
        fn_ = M.find_method(ck, fw[1])
        rep.violation(RULE.get(fw[1], "R4"), f"{ck[0]}.{ck[1]}.{fw[1]}", "layout", fw[2], file, fn_.node.lineno if fn_ else 1, witness=fw[3])
        rep.count("accessors", 1)
    if fw[0] in ("ok", "bad"):
        # the address scan on its own: every position and every extension-bit valuation
        cls_roles = dict(roles)
        A0 = type("A0", (), {"FRAME": FRAME, "HEADER": HEADER})()
        _address_scan(rep, M, H, file, cls_roles, store, A0)
        return None
    rep.notes.append(f"frame worlds through the public API not evaluable ({fw[1]}); falling back to per-accessor worlds (E-ACC)")
    # control-position field: the header field assigned from a parameterless header method in update()
    cpf = cp_field = None
    upd = H.methods.get("update")
    rep.require(upd is not None, "anchor vanished: HdlcFrameHeader.update")
    for n in ast.walk(upd.node):
        if isinstance(n, ast.Assign) and isinstance(n.targets[0], ast.Attribute) and isinstance(n.value, ast.Call) and isinstance(n.value.func, ast.Attribute) \
                and isinstance(n.value.func.value, ast.Name) and n.value.func.value.id == "self" and n.value.func.attr in H.methods and not n.value.args:
            cpf = H.methods[n.value.func.attr]
            cp_field = n.targets[0].attr
    rep.require(cpf is not None and cp_field is not None, "cannot bind the control-position field of the header")
    A = AccSem(M, FRAME, HEADER, roles, store, cp_field, keep={"destination_address", "source_address", "is_good_ffc"})
    A.engine_opts = {}
    # ---------------------------------------------------------------- R3 / R4: accessors in frame worlds
    table = [("R3", HEADER, "frame_format", "(octet0 << 8) | octet1, available from 2 octets on"),
             ("R3", HEADER, "frame_length", "low 11 bits of the format field"),
             ("R3", HEADER, "frame_format_type", "bits 12-15 of the format field"),
             ("R3", HEADER, "segmentation", "bit 11 of the format field"),
             ("R3", FRAME, "is_expected_length", "header frame length == number of octets"),
             ("R4", HEADER, "control", "the octet at the control position, once present"),
             ("R4", HEADER, "header_check_sequence", "the two octets after the control field, high octet first, once both are present"),
             ("R4", HEADER, "information_position", "control position + 3"),
             ("R4", FRAME, "payload", "octets[information position : -2] when the frame is longer than the information position"),
             ("R4", FRAME, "frame_check_sequence", "the last two octets, high octet first"),
             ("R4", FRAME, "as_bytes", "a copy of all frame octets"),
             ("R4", FRAME, "__len__", "the number of octets")]
    W = worlds() + [(n, None) for n in (10, 12)]
    for rule, ck, name, desc in table:
        cls = M.classes[ck]
        rep.require(name in cls.methods, f"anchor vanished: {ck[1]}.{name}")
        fn = cls.methods[name]
        rep.count("accessors", 1)
        bad = und = None
        nw = 0
        for n, c in W:
            w = World(n, c, {("frame", "is_good_ffc"): Sym("good-fcs")})
            r = A.run(ck, name, w)
            if r[0] == "undef":
                und = r[1]
                break
            nw += 1
            o = A.oct
            if name == "frame_check_sequence":
                val = o[n - 2].shl(8).or_(o[n - 1]) if n >= 2 else None
                ok_vals = [val] if (c is not None and n >= c + 5) else ([None] if c is None else [None, val])
            else:
                ok_vals = [reference(name, n, c, o, A)]
            got = ("raises " + r[1]) if r[0] == "raise" else r[1]
            if r[0] == "raise" or not any(_same(got, v) for v in ok_vals):
                bad = (n, c, got, ok_vals[-1])
                break
            if r[0] == "value" and any(e[0] in ("write", "mutate", "setitem") for e in r[2].effects):
                bad = (n, c, "a state change", "no side effect")
                break
        qual = f"{ck[0]}.{ck[1]}.{name}"
        if und:
            rep.undecide(f"{rule} {qual}: {und}")
        elif bad:
            n, c, got, want = bad
            rep.violation(rule, qual, "layout", f"{name} is not {desc}: for a frame of {n} octet(s) with control position {c} it gives {_fmt(got)} instead of {_fmt(want)}",
                          file, fn.node.lineno, witness=f"n={n} control_position={c}")
        else:
            rep.ok(rule, name, f"= {desc} (symbolic octets, {nw} frame worlds)")
    # ---------------------------------------------------------------- address positions
    scan = _address_scan(rep, M, H, file, roles, store, A)
    if scan is None:
        return cp_field
    A.scan = scan
    orig_ev = A.ev

    def ev2(sv, w, root):
        if sv[0] == "call" and sv[1] == scan.qual:
            arg = orig_ev(sv[2][-1], w, root)
            return ("scan", arg)
        return orig_ev(sv, w, root)
    A.ev = ev2
    for name, worlds_, ref in (
            ("destination_address", [World(n, None) for n in range(0, 8)], lambda w: ("scan", 2) if w.n >= 2 else None),
            ("source_address", [World(8, None, {("header", "destination_address"): d}) for d in (None, Sym("dst", none=False, length=1), Sym("dst", none=False, length=2), Sym("dst", none=False, length=4))],
             lambda w: None if w.extra[("header", "destination_address")] is None else ("scan", 2 + w.extra[("header", "destination_address")].length)),
            (cpf.name, [World(9, None, {("header", "destination_address"): d, ("header", "source_address"): s}) for d in (None, Sym("dst", none=False, length=1), Sym("dst", none=False, length=3))
                        for s in (None, Sym("src", none=False, length=1), Sym("src", none=False, length=2))],
             lambda w: None if (w.extra[("header", "destination_address")] is None or w.extra[("header", "source_address")] is None)
             else 2 + w.extra[("header", "destination_address")].length + w.extra[("header", "source_address")].length)):
        fn = H.methods.get(name)
        rep.require(fn is not None, f"anchor vanished: HdlcFrameHeader.{name}")
        rep.count("accessors", 1)
        bad = und = None
        for w in worlds_:
            r = A.run(HEADER, name, w, no_inline=(scan.name,))
            if r[0] == "undef":
                und = r[1]
                break
            want = ref(w)
            got = ("raises " + r[1]) if r[0] == "raise" else r[1]
            if r[0] == "raise" or not _same(got, want):
                bad = (w, got, want)
                break
        qual = f"hdlc.HdlcFrameHeader.{name}"
        text = {"destination_address": "destination address starts at octet 2 (needs 2 octets)", "source_address": "source address follows the destination address"}.get(name, "control field position = 2 + |destination| + |source|")
        if und:
            rep.undecide(f"R4 {qual}: {und}")
        elif bad:
            w, got, want = bad
            tag = "address-position" if name != cpf.name else "control-position"
            rep.violation("R4", qual, tag, f"{text} is violated: it gives {_fmt(got)} instead of {_fmt(want)}", file, fn.node.lineno,
                          witness=f"n={w.n} " + " ".join(f"{k[1]}={'None' if v is None else 'length ' + str(v.length)}" for k, v in w.extra.items() if isinstance(k, tuple) and k[0] == "header"))
        else:
            rep.ok("R4", name, text + f" ({len(worlds_)} worlds)")
    A.ev = orig_ev
    # ---------------------------------------------------------------- update(): control position is computed while unknown, never overwritten
    rep.count("accessors", 1)
    bad = und = None
    nu = 0
    for n in range(0, 16):
        for c in (None, 4, 6):
            for r_ in (None, 4, 10):
                if c is not None and n < c:
                    continue
                w = World(n, c, {("call", cpf.qual): r_, ("frame", "is_good_ffc"): Sym("good-fcs")})
                for k in list(H.field_inits):
                    if k not in (cp_field, roles["frame"]):
                        w.extra[("header", k)] = None
                res = A.run(HEADER, "update", w, no_inline=(cpf.name,))
                if res[0] == "undef":
                    und = res[1]
                    break
                if res[0] == "raise":
                    bad = (n, c, r_, "raises " + res[1])
                    break
                p = res[2]
                try:
                    final = A.ev(p.store.get(("f", SELF, cp_field), ("f0", SELF, cp_field)), w, "header")
                except Exception as ex:  # noqa
                    und = f"update(): final control position not in the frame domain ({ex})"
                    break
                want = r_ if (c is None and n > 3) else c
                nu += 1
                if final != want:
                    bad = (n, c, r_, final, want)
                    break
            if bad or und:
                break
        if bad or und:
            break
    if und:
        rep.undecide(f"R4 hdlc.HdlcFrameHeader.update: {und}")
    elif bad:
        if len(bad) == 4:
            rep.violation("R4", "hdlc.HdlcFrameHeader.update", "control-position-update", f"update() {bad[3]} for a frame of {bad[0]} octets", file, upd.node.lineno)
        else:
            n, c, r_, final, want = bad
            tag = "control-position-overwrite" if c is not None else "control-position-update"
            rep.violation("R4", "hdlc.HdlcFrameHeader.update", tag, f"for a frame of {n} octets with control position {c} (address fields give {r_}) update() leaves the control position {final} instead of {want}: "
                          + ("a known control position is overwritten" if c is not None else "the position is not (re)computed on every append while unknown, so frames with extended addresses never get control, HCS and payload"),
                          file, upd.node.lineno, witness=f"n={n} control_position={c} computed={r_}")
    else:
        rep.ok("R4", "control position update", f"{nu} worlds: while unknown it is recomputed on every append once more than 3 octets are present; a known position is never overwritten")
    return cp_field


def name_in(M, ck, name):
    return M.find_method(ck, name) is not None


def _same(a, b):
    if isinstance(a, tuple) and isinstance(b, tuple):
        return len(a) == len(b) and all(_same(x, y) for x, y in zip(a, b))
    if isinstance(a, BV) and isinstance(b, int) and not isinstance(b, bool):
        return a.is_const() and a.value() == b
    if isinstance(b, BV) and isinstance(a, int) and not isinstance(a, bool):
        return b.is_const() and b.value() == a
    if isinstance(a, bool) != isinstance(b, bool):
        return False
    return a == b


# ---------------------------------------------------------------------------------------------------- address scan
class Scan:
    def __init__(self, fn):
        self.fn, self.name, self.qual = fn, fn.name, fn.qual


def _address_scan_abs(M, ga, roles, store, frame_key, header_key):
    """the address scan interpreted (E-ABS) on frames of every length 0..7 whose octets are symbolic except for their extension bit, from every
    position 0..4 and for every valuation of the extension bits: ('ok', cells) | ('bad', text) | ('undecided', text)"""
    from sa.abseval import AbsEval, AObj, Sym
    from sa.sveval import Res
    import itertools
    cells = 0
    for n in range(0, 8):
        octs = [Sym(f"o{i}", "int") for i in range(n)]
        for pos in range(0, 5):
            span = list(range(pos, n))
            for bits in itertools.product((0, 1), repeat=len(span)) if span else [()]:
                val = dict(zip(span, bits))
                if any(val[j] for j in span[:-1] if j in val and False):
                    pass
                # valuations that differ only after the first terminating octet are the same case
                first = next((j for j in span if val[j]), None)
                if first is not None and any(val[j] for j in span if j > first):
                    continue
                A = AbsEval(M)
                A.abstract_bytes = True
                foreign = []

                def oracle(term, octs=octs, val=val, foreign=foreign):
                    # decides exactly the tests of the extension bit: (o & 1) == 1, (o & 1) != 0, o & 1, o % 2 ...
                    t, neg = term, False
                    want = None
                    if isinstance(t, Res) and t.op in ("Eq", "NotEq") and len(t.args) == 2:
                        a, b = t.args
                        if isinstance(a, int) and not isinstance(b, int):
                            a, b = b, a
                        if isinstance(b, int) and b in (0, 1):
                            want = b if t.op == "Eq" else 1 - b
                            t = a
                    if isinstance(t, Res) and t.op in ("BitAnd", "Mod") and len(t.args) == 2:
                        a, b = t.args
                        if isinstance(a, int) and not isinstance(b, int):
                            a, b = b, a
                        if (t.op == "BitAnd" and b == 1 or t.op == "Mod" and b == 2) and any(a is o for o in octs):
                            i = next(k for k, o in enumerate(octs) if a is o)
                            bit = val.get(i)
                            if bit is None:
                                foreign.append(f"octet {i} before the position")
                                return None
                            return bit == (1 if want is None else want)
                    foreign.append(repr(term))
                    return None
                A.oracle = oracle
                frame = AObj("HdlcFrame", {store: list(octs)}, cls_key=frame_key)
                header = AObj("HdlcFrameHeader", {roles["frame"]: frame}, cls_key=header_key)
                r = A.apply(ga, [header, pos])
                cells += 1
                desc = f"frame of {n} octet(s), position {pos}, extension bits {''.join(str(val[j]) for j in span) or '-'}"
                if r[0] == "branch":
                    return ("foreign", f"the scan decides on {r[1]!r} ({desc}): the end of an address depends on more than the extension bit of the scanned octets")
                if r[0] == "undecided":
                    return ("undecided", f"{r[1]} ({desc})")
                want_r = None if first is None else tuple(octs[pos:first + 1])
                got = r[1] if r[0] == "value" else f"raises {r[1]}"
                if isinstance(got, (list, tuple)):
                    got = tuple(got)
                same = (got is None and want_r is None) or (isinstance(got, tuple) and want_r is not None and len(got) == len(want_r) and all(x is y for x, y in zip(got, want_r)))
                if not same:
                    show = lambda t: None if t is None else t if isinstance(t, str) else "octets[" + ",".join(str(octs.index(x)) if any(x is o for o in octs) else "?" for x in t) + "]"
                    return ("bad", f"for a {desc} the scan gives {show(got)} instead of {show(want_r)}")
    return ("ok", cells)


def _address_scan(rep, M, H, file, roles, store, A):
    """the header method with a position parameter and a loop: returns octets[position : j+1] for the first j >= position whose
    octet has the low bit set, None if the frame ends first"""
    ga = next((f for n, f in H.methods.items() if f.params and f.kind == "method" and any(isinstance(x, (ast.While, ast.For)) for x in ast.walk(f.node))), None)
    if ga is None:
        rep.undecide("R4 address scan helper (header method with a position parameter and a loop) not found")
        return None
    rep.count("accessors", 1)
    verdict = _address_scan_abs(M, ga, roles, store, A.FRAME, A.HEADER)
    if verdict[0] == "ok":
        rep.ok("R4", "address scan", f"starts at the given position, returns the octets up to and including the first one with extension bit 1, None if the frame ends first "
               f"({verdict[1]} frame worlds: lengths 0..7 x positions 0..4 x extension-bit valuations; other bits symbolic)")
        rep.count("address_scan_worlds", verdict[1])
        return Scan(ga)
    if verdict[0] in ("bad", "foreign"):
        rep.violation("R4", f"hdlc.HdlcFrameHeader.{ga.name}", "address-scan", verdict[1], file, ga.node.lineno)
        return Scan(ga)
    qual = f"hdlc.HdlcFrameHeader.{ga.name}"
    pos = ("p", ga.params[0])
    E = Engine(M, inline_depth=8, inline_subobjects=True, split_ifexp=True)
    try:
        pre = E.run(ga)
    except (Unsupported, NeedFork) as ex:
        rep.undecide(f"R4 address scan: outside the analysed subset ({ex})")
        return None
    if len(E.loop_entries) != 1:
        rep.undecide(f"R4 address scan: {len(E.loop_entries)} loops")
        return None
    fn, node, fr, entry = E.loop_entries[0]

    def is_store(sv):
        while sv[0] == "call" and sv[1] in ("bytes", "bytearray") and len(sv[2]) == 1:
            sv = sv[2][0]
        return sv[0] == "f0" and sv[2] == store and A.kind(sv[1], "header") == "frame"

    def is_len(sv):
        return (sv[0] == "len" and (is_store(sv[1]) or A.kind(sv[1], "header") == "frame")) or (sv[0] == "call" and sv[1] == "len" and is_store(sv[2][0]))

    # paths that leave before the loop: only `frame too short for the position` -> None
    why = None
    for p in pre:
        if not any(e[0] == "loop" for e in p.effects):
            if p.status != "return" or p.ret != ("c", None):
                why = "returns a value without scanning"
    # one iteration, normalised: index variable v, init, bound
    it_var = None
    start = Path(dict(entry.store), [], [], "run", None)
    if isinstance(node, ast.For):
        itv = E.ev(node.iter, start, fr)
        if not (itv[0] == "call" and itv[1] == "range" and len(itv[2]) == 2 and itv[2][0] == pos and is_len(itv[2][1])) or not isinstance(node.target, ast.Name):
            rep.undecide("R4 address scan: for-loop is not over range(position, number of octets)")
            return None
        I = ("idx",)
        start.store[("l", fr["id"], node.target.id)] = I
        conts_ok = True
        body = E.block(node.body, [start], fr)
        exit_none = True  # falling out of range(): checked on the post-loop paths below
        post = [p for p in pre if any(e[0] == "loop" for e in p.effects)]
        if any(p.status != "return" or p.ret != ("c", None) for p in post):
            why = why or "after the last octet the scan does not return None"
        stepped = True
    else:
        # while-form: an index local initialised to the position, compared with the length, advanced by one
        cands = [k for k, v in entry.store.items() if k[0] == "l" and v == pos]
        if len(cands) != 1:
            rep.undecide("R4 address scan: index variable of the while-loop not found (no local initialised to the position)")
            return None
        I = ("idx",)
        start.store[cands[0]] = I
        t, f = E.cond(node.test, start, fr)
        body = E.block(node.body, t, fr)
        for q in f:
            why = why or "loop can end without a result"
        stepped = all(p.store.get(cands[0]) == ("op", "Add", I, ("c", 1)) for p in body if p.status in ("run", "continue"))
        if not stepped:
            why = why or "scan does not advance by exactly one octet per iteration"
    # classify body paths
    seen = {"end": 0, "term": 0, "cont": 0}
    acc_ok = True
    for p in body:
        term = None
        at_end = None
        for g, pol, _ in p.guards:
            if g[0] == "cmp" and g[2] == I and is_len(g[3]):
                at_end = {("Lt", True): False, ("Lt", False): True, ("LtE", False): True, ("GtE", True): True}.get((g[1], pol))
                continue
            gg = g
            if gg[0] == "cmp" and gg[1] == "Eq" and gg[2][0] == "op" and gg[2][1] == "BitAnd" and gg[3][0] == "c" and \
                    not (("c", 1) in (gg[2][2], gg[2][3]) and gg[3][1] in (0, 1)):
                why = why or f"address terminator test is {show_sv(g)[:80]}, not `octet & 0x01 == 0x01`"
                continue
            if gg[0] == "cmp" and gg[1] == "Eq" and gg[3] == ("c", 1):
                gg = gg[2]
            elif gg[0] == "cmp" and gg[1] == "Eq" and gg[3] == ("c", 0):
                gg, pol = gg[2], not pol
            if gg[0] == "op" and gg[1] == "BitAnd" and ("c", 1) in (gg[2], gg[3]):
                other = gg[3] if gg[2] == ("c", 1) else gg[2]
                if other[0] == "sub" and is_store(other[1]) and other[2] == I:
                    term = pol
                    continue
                why = why or f"terminator test reads {show_sv(other)} instead of the scanned octet"
                continue
            if gg[0] == "op" and gg[1] == "BitAnd":
                why = why or f"address terminator test is {show_sv(g)}, not `octet & 0x01 == 0x01`"
                continue
            why = why or f"unrecognised condition {show_sv(g)[:60]}"
        appends = [e for e in p.effects if e[0] == "mutate" and e[2] == "append"]
        if at_end:
            seen["end"] += 1
            if p.status != "return" or p.ret != ("c", None):
                why = why or "at the frame end the scan does not return None"
            continue
        if term is True:
            seen["term"] += 1
            if p.status != "return":
                why = why or "terminating octet does not end the scan"
                continue
            r = p.ret
            while r[0] == "call" and r[1] in ("bytes", "bytearray") and len(r[2]) == 1:
                r = r[2][0]
            if r[0] == "slice" and is_store(r[1]) and r[2] == pos and r[3] == ("op", "Add", I, ("c", 1)):
                pass  # octets[position : j+1]
            elif r[0] == "mut" or (r[0] in ("l", "g", "havoc", "call", "new")):
                # accumulator form: one append of octets[j] on this path and on the continuing path, accumulator created empty before the loop
                if not (len(appends) == 1 and appends[0][3] and appends[0][3][0][0] == "sub" and is_store(appends[0][3][0][1]) and appends[0][3][0][2] == I):
                    acc_ok = False
            else:
                why = why or f"result is {show_sv(p.ret)[:60]}, not the octets from the position up to the terminating octet"
        elif term is False:
            seen["cont"] += 1
            if p.status not in ("run", "continue"):
                why = why or "a non-terminating octet ends the scan"
            if appends and not (len(appends) == 1 and appends[0][3][0][0] == "sub" and is_store(appends[0][3][0][1]) and appends[0][3][0][2] == I):
                acc_ok = False
        else:
            why = why or "a scan step does not test the low bit of the scanned octet"
    uses_acc = any(e[0] == "mutate" and e[2] == "append" for p in body for e in p.effects)
    if uses_acc:
        # accumulator must be appended on both the terminating and the continuing step, and start empty
        t_app = all(any(e[0] == "mutate" and e[2] == "append" for e in p.effects) for p in body if p.status == "return" and p.ret != ("c", None))
        c_app = all(any(e[0] == "mutate" and e[2] == "append" for e in p.effects) for p in body if p.status in ("run", "continue"))
        if not (t_app and c_app and acc_ok):
            why = why or "scan step is not: stop with None at the frame end; append octet; return at LSB 1; else advance by one"
    if not seen["term"] or not seen["cont"]:
        why = why or "scan has no terminating / continuing step"
    if isinstance(node, ast.While) and not seen["end"]:
        why = why or "scan has no exit at the frame end"
    if why is None:
        rep.ok("R4", "address scan", "starts at the given position, returns the octets up to and including the first one with low bit 1, None if the frame ends first")
    elif why.startswith(("unrecognised", "index variable")):
        rep.undecide(f"R4 address scan: {why}")
    else:
        rep.violation("R4", qual, "address-scan", why, file, ga.node.lineno)
    return Scan(ga)
