"""./check <id> [--tier quick|thorough] [--replay path]  -- dispatcher; maps crashes to exit 2."""
from __future__ import annotations

import argparse
import importlib
import os
import sys
import traceback

from sa.report import ModelViolation, Report, Undecided
from sa.source import Sources


def run_property(pid, tier, seed, sources=None, write=True, quiet=False):
    mod = importlib.import_module(f"sa.props.{pid.lower()}")
    rep = Report(pid, tier, seed, level=getattr(mod, "LEVEL", "other"))
    try:
        src = sources or Sources()
        mod.check(src, rep)
        if tier == "thorough" and hasattr(mod, "thorough") and sources is None:
            mod.thorough(src, rep)
    except Undecided as e:
        rep.undecide(str(e))
    except ModelViolation as e:
        rep.violation("R0", e.at, e.construct, e.reason, e.file, e.line, e.witness)
    except Exception as e:  # checker crash -> never a traceback exit 1
        tb = traceback.format_exc().strip().splitlines()
        rep.undecide(f"ANALYSIS-ERROR {type(e).__name__}: {e} @ {tb[-3].strip() if len(tb) > 2 else ''}")
        if os.environ.get("VERIF_DEBUG"):
            traceback.print_exc()
    return rep, rep.finish(write=write, quiet=quiet)


def main(argv=None):
    ap = argparse.ArgumentParser()
    ap.add_argument("pid")
    ap.add_argument("--tier", default=os.environ.get("VERIF_TIER", "quick"), choices=["quick", "thorough"])
    ap.add_argument("--replay", default=None)
    a = ap.parse_args(argv)
    seed = int(os.environ.get("VERIF_SEED", "0") or 0)
    try:
        _, code = run_property(a.pid.upper(), a.tier, seed)
    except BaseException as e:  # noqa
        if isinstance(e, SystemExit):
            raise
        print(f"ANALYSIS-ERROR property={a.pid} {type(e).__name__}: {e}")
        code = 2
    sys.exit(code)


if __name__ == "__main__":
    main()
