"""Conditions of a reader's read() on its chunk parameter alone (`if not data_chunk: return ...`), judged by evaluating them on
representative chunks: which chunks take a path of read() that differs from the ordinary prologue / loop / epilogue."""
from __future__ import annotations

import ast

from sa import sveval


def chunk_only(sv, PC):
    """the value depends on the chunk parameter and constants only"""
    if not isinstance(sv, tuple) or not sv:
        return True
    h = sv[0]
    if h == "p":
        return sv == PC
    if h in ("f0", "prop", "g", "l", "new", "iter", "mut", "await", "bound", "havoc", "opaque", "sent", "calldyn"):
        return False
    return all(chunk_only(x, PC) for x in sv[1:] if isinstance(x, tuple))


def mentions(sv, target):
    if sv == target:
        return True
    return isinstance(sv, tuple) and any(mentions(x, target) for x in sv if isinstance(x, tuple))


def taken_for(conds, PC, samples):
    """the sample chunks for which every condition (sv, polarity) has the recorded outcome; None when one cannot be evaluated"""
    out = []
    for smp in samples:
        try:
            if all(bool(sveval.ev(g, {PC: smp})) == pol for g, pol in conds):
                out.append(smp)
        except (sveval.CannotEval, KeyError, TypeError, IndexError, ValueError):
            return None
    return out


def in_test(u, parents):
    """the use of a name is part of the test of an if / conditional expression / while"""
    c = u
    while c in parents:
        par = parents[c]
        if isinstance(par, (ast.If, ast.IfExp, ast.While)) and par.test is c:
            return True
        if isinstance(par, ast.stmt):
            return False
        c = par
    return False
