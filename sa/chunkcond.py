"""Conditions of a reader's read() on its chunk parameter alone (`if not data_chunk: return ...`), judged by evaluating them on
representative chunks: which chunks take a path of read() that differs from the ordinary prologue / loop / epilogue."""
from __future__ import annotations

import ast

from sa import sveval


TYPE_NAMES = {"bytes": bytes, "bytearray": bytearray, "memoryview": memoryview, "str": str, "int": int, "list": list, "tuple": tuple}


def chunk_only(sv, PC):
    """the value depends on the chunk parameter and constants only"""
    if not isinstance(sv, tuple) or not sv:
        return True
    h = sv[0]
    if h == "p":
        return sv == PC
    if h == "g":
        return sv[1] in TYPE_NAMES or (isinstance(sv[1], str) and sv[1].isupper())  # a builtin type name / a module constant
    if h in ("f0", "prop", "l", "new", "iter", "mut", "await", "bound", "havoc", "opaque", "sent", "calldyn"):
        return False
    return all(chunk_only(x, PC) for x in sv[1:] if isinstance(x, tuple))


def mentions(sv, target):
    if sv == target:
        return True
    return isinstance(sv, tuple) and any(mentions(x, target) for x in sv if isinstance(x, tuple))


def taken_for(conds, PC, samples, consts=None):
    """the sample chunks for which every condition (sv, polarity) has the recorded outcome; None when one cannot be evaluated"""
    out = []
    for smp in samples:
        try:
            env = {PC: smp}
            env.update({("g", k): v for k, v in TYPE_NAMES.items()})
            env.update(consts or {})
            if all(bool(sveval.ev(g, env)) == pol for g, pol in conds):
                out.append(smp)
        except (sveval.CannotEval, KeyError, TypeError, IndexError, ValueError):
            return None
    return out


def in_test(u, parents):
    """the use of a name is part of the test of an if / conditional expression / while"""
    c = u
    while c in parents:
        par = parents[c]
        if isinstance(par, (ast.If, ast.IfExp, ast.While)) and par.test is c:
            return True
        if isinstance(par, ast.stmt):
            return False
        c = par
    return False
