"""E-ASYNC: task typestate inside one coroutine (DESIGN.md Appendix A.9).

States of a task handle: Pending -> {Done | Cancelled}; after wait(..., FIRST_COMPLETED) every member is MaybePending.
Error states at a loop back-edge, loop exit and function exit: Pending, MaybePending (the task is abandoned while it may still run).
Helper coroutines that settle all their task arguments (cancel the pending ones, await them) are summarised by the same analysis.
"""
from __future__ import annotations

import ast

PEND, MAYBE, DONE, CANC, DOC = "Pending", "MaybePending", "Done", "Cancelled", "DoneOrCancelled"
ORDER = [DONE, CANC, DOC, MAYBE, PEND]
SETTLED = (DONE, CANC, DOC)


def join_state(x, y):
    if x == y:
        return x
    if x is None or y is None:
        return x or y
    if x in SETTLED and y in SETTLED:
        return DOC
    return max(x, y, key=ORDER.index)


def join(a, b):
    return {k: join_state(a.get(k), b.get(k)) for k in set(a) | set(b)}


def call_name(call):
    f = call.func
    return f.id if isinstance(f, ast.Name) else f.attr if isinstance(f, ast.Attribute) else None


def creates_task(call):
    nm = call_name(call)
    if nm == "create_task":
        return True
    if nm == "ensure_future" and call.args and isinstance(call.args[0], ast.Call):
        return True  # a coroutine call is wrapped in a new task; a future-valued attribute is not
    return False


def settles_args(fn: ast.AST):
    """summary: does this helper cancel-or-find-done every element of its (var)arg collection?  True / False (a recognised loop over the collection
    that does not settle, or no use of it at all) / None (the collection is used in a form the summary does not follow)"""
    a = fn.args
    coll = a.vararg.arg if a.vararg else (a.args[-1].arg if a.args else None)
    if coll is None:
        return False
    recognised_loop = False
    # (merely awaiting wait(<all of them>) is not settling: a pending task that is never cancelled may never complete, and the caller hangs)
    for s in fn.body:
        it = s.iter if isinstance(s, (ast.For, ast.AsyncFor)) else None
        if isinstance(it, (ast.GeneratorExp, ast.ListComp)) and len(it.generators) == 1 and isinstance(it.generators[0].iter, ast.Name) and it.generators[0].iter.id == coll \
                and isinstance(it.generators[0].target, ast.Name) and isinstance(it.elt, ast.Name) and it.elt.id == it.generators[0].target.id:
            # for x in (t for t in coll if not t.done()): the elements filtered out are done already
            g = it.generators[0]
            v = g.target.id
            if all(isinstance(c, ast.UnaryOp) and isinstance(c.op, ast.Not) and isinstance(c.operand, ast.Call) and isinstance(c.operand.func, ast.Attribute) and c.operand.func.attr == "done"
                   and isinstance(c.operand.func.value, ast.Name) and c.operand.func.value.id == v and not c.operand.args for c in g.ifs):
                it = ast.Name(id=coll, ctx=ast.Load())
        if isinstance(s, (ast.For, ast.AsyncFor)) and isinstance(it, ast.Name) and it.id == coll and isinstance(s.target, ast.Name):
            recognised_loop = True
            t = s.target.id
            st = {t: MAYBE}
            ts = TaskTypestate({}, lambda c: None)
            out = ts.run(s.body, st)
            if out.get(t) in SETTLED:
                return True
    if recognised_loop:
        return False
    # every other use of the collection besides wait(coll) / gather(*coll) is a form this summary does not follow
    uses = [n for n in ast.walk(fn) if isinstance(n, ast.Name) and n.id == coll and isinstance(n.ctx, ast.Load)]
    plain = [n for n in ast.walk(fn) if isinstance(n, ast.Call) and call_name(n) in ("wait", "gather") for x in ast.walk(n) if isinstance(x, ast.Name) and x.id == coll]
    return False if len(uses) == len(plain) else None


class TaskTypestate:
    def __init__(self, helpers, on_finding):
        self.helpers = helpers  # name -> bool (settles its task args)
        self.findings = []
        self.created = {}  # var -> (source text, lineno)
        self.sets = {}  # local name -> tuple of handle names (e.g. `pending` of `done, pending = await wait(S)`)
        self.on_finding = on_finding
        self.escaped = []  # (line, what): handles / freshly created tasks handed to code the typestate does not follow
        self.on_await = None  # callback(stmt, awaited expression, state before) for every statement-level await

    def finding(self, line, var, what):
        src = self.created.get(var, (var, line))[0]
        f = (line, var, src, what)
        if f not in self.findings:
            self.findings.append(f)

    def check_settled(self, st, line, where):
        for v, x in st.items():
            if x in (PEND, MAYBE):
                self.finding(line, v, f"{x} at {where}")

    def names_in(self, node, st):
        out = []
        for a in ast.walk(node):
            if isinstance(a, ast.Name) and a.id in st:
                out.append(a.id)
            elif isinstance(a, ast.Name) and a.id in self.sets:
                out.extend(self.sets[a.id])
        return out

    def do_call(self, e, st, awaited):
        nm = call_name(e)
        if nm == "wait" and e.args:
            first = any(k.arg == "return_when" and ast.unparse(k.value).endswith("FIRST_COMPLETED") for k in e.keywords) or \
                any(k.arg == "return_when" and ast.unparse(k.value).endswith("FIRST_EXCEPTION") for k in e.keywords)
            timeout = any(k.arg == "timeout" and not (isinstance(k.value, ast.Constant) and k.value.value is None) for k in e.keywords)
            for n in self.names_in(e.args[0], st):
                if st[n] in (PEND, MAYBE):
                    st[n] = MAYBE if (first or timeout) else DONE
            return
        if nm == "gather" and awaited:
            for a in e.args:
                for n in self.names_in(a, st):
                    st[n] = DONE if st[n] in (PEND, MAYBE) else st[n]
            return
        if nm == "cancel" and isinstance(e.func, ast.Attribute) and isinstance(e.func.value, ast.Name) and e.func.value.id in st:
            v = e.func.value.id
            st[v] = CANC if st[v] in (PEND,) else DOC if st[v] == MAYBE else st[v]
            return
        if nm in self.helpers and self.helpers[nm] and awaited:
            for a in e.args:
                for n in self.names_in(a, st):
                    if st[n] in (PEND, MAYBE):
                        st[n] = DOC
            return
        if nm in ("result", "exception") and isinstance(e.func, ast.Attribute) and isinstance(e.func.value, ast.Name) and e.func.value.id in st and not e.args:
            v = e.func.value.id
            if st[v] in (CANC, DOC):
                self.finding(getattr(e, "lineno", 0), v, f"{nm}() of a task that may have been cancelled raises CancelledError (a BaseException) out of the coroutine")
            elif st[v] in (PEND, MAYBE):
                self.finding(getattr(e, "lineno", 0), v, f"{nm}() of a task that may still be pending raises InvalidStateError")
            return
        if nm in ("done", "cancelled", "result", "exception", "add_done_callback", "debug", "info", "warning", "error", "is_set", "set", "clear", "close"):
            return
        # any other callee that receives a handle (or a task created in the argument itself): ownership moves to code outside this typestate
        passed = [n for a in list(e.args) + [k.value for k in e.keywords] for n in self.names_in(a, st)]
        fresh = [a for a in list(e.args) + [k.value for k in e.keywords] for x in ast.walk(a) if isinstance(x, ast.Call) and creates_task(x)]
        definite_not = nm in self.helpers and self.helpers[nm] is False
        if (passed or fresh) and not definite_not:
            for n in passed:
                if st[n] in (PEND, MAYBE):
                    st[n] = DOC
            self.escaped.append((getattr(e, "lineno", 0), f"{ast.unparse(e.func)}({', '.join(passed) or 'a task created in the argument'})"))

    def run(self, stmts, st):
        for s in stmts:
            st = self.stmt(s, st)
        return st

    def refine(self, test, st, branch):
        """`h.done()` / `not h.done()` tests refine the state of h in the branch"""
        st = dict(st)
        neg = False
        t = test
        if isinstance(t, ast.UnaryOp) and isinstance(t.op, ast.Not):
            neg, t = True, t.operand
        if isinstance(t, ast.Call) and call_name(t) == "cancelled" and isinstance(t.func, ast.Attribute) and isinstance(t.func.value, ast.Name) and t.func.value.id in st:
            v = t.func.value.id
            is_canc = (branch and not neg) or (not branch and neg)
            if st[v] == DOC:
                st[v] = CANC if is_canc else DONE
            return st
        if isinstance(t, ast.Call) and call_name(t) == "done" and isinstance(t.func, ast.Attribute) and isinstance(t.func.value, ast.Name) and t.func.value.id in st:
            v = t.func.value.id
            is_done = (branch and not neg) or (not branch and neg)
            if is_done:
                st[v] = DONE if st[v] in (PEND, MAYBE) else st[v]
            else:
                st[v] = PEND if st[v] == MAYBE else st[v]
        return st

    def stmt(self, s, st):
        st = dict(st)
        if isinstance(s, (ast.Assign, ast.AnnAssign)):
            val = s.value
            tgts = s.targets if isinstance(s, ast.Assign) else [s.target]
            aw = isinstance(val, ast.Await)
            inner = val.value if aw else val
            if aw and self.on_await:
                self.on_await(s, inner, dict(st))
            if len(tgts) == 1 and isinstance(tgts[0], ast.Name) and isinstance(inner, (ast.Tuple, ast.List, ast.IfExp)):
                alts = [inner.body, inner.orelse] if isinstance(inner, ast.IfExp) else [inner]
                if all(isinstance(a_, (ast.Tuple, ast.List)) and all(isinstance(x_, ast.Name) for x_ in a_.elts) for a_ in alts):
                    common = set.intersection(*[{x_.id for x_ in a_.elts} for a_ in alts])
                    self.sets[tgts[0].id] = tuple(n_ for n_ in common if n_ in st)  # the handles that are in the collection whichever way it is built
                    return st
            if isinstance(inner, ast.Call):
                if creates_task(inner) and len(tgts) == 1 and isinstance(tgts[0], ast.Name):
                    v = tgts[0].id
                    if st.get(v) in (PEND, MAYBE):
                        self.finding(s.lineno, v, f"handle re-assigned while {st[v]} (the old task is abandoned)")
                    st[v] = PEND
                    self.created[v] = (ast.unparse(inner), s.lineno)
                    return st
                members = self.names_in(inner.args[0], st) if (call_name(inner) == "wait" and inner.args) else []
                if creates_task(inner):
                    pass
                self.do_call(inner, st, aw)
                if call_name(inner) == "wait" and len(tgts) == 1 and isinstance(tgts[0], ast.Tuple) and len(tgts[0].elts) == 2 and isinstance(tgts[0].elts[1], ast.Name):
                    self.sets[tgts[0].elts[1].id] = tuple(members)
                    self.__dict__.setdefault("wait_rest", set()).add(tgts[0].elts[1].id)
            return st
        if isinstance(s, ast.Expr):
            e = s.value
            aw = isinstance(e, ast.Await)
            if aw:
                e = e.value
                if self.on_await:
                    self.on_await(s, e, dict(st))
            if isinstance(e, ast.Call):
                self.do_call(e, st, aw)
            elif aw and isinstance(e, ast.Name) and e.id in st:
                st[e.id] = DONE
            return st
        if isinstance(s, ast.If):
            a = self.run(s.body, self.refine(s.test, st, True))
            b = self.run(s.orelse, self.refine(s.test, st, False))
            return join(a, b)
        if isinstance(s, (ast.While, ast.For, ast.AsyncFor)):
            if isinstance(s, (ast.For, ast.AsyncFor)) and isinstance(s.iter, ast.Name) and s.iter.id in self.sets and isinstance(s.target, ast.Name):
                # for t in pending: t.cancel()
                t = s.target.id
                body_st = self.run(s.body, {t: MAYBE})
                if body_st.get(t) in SETTLED:
                    for n in self.sets[s.iter.id]:
                        if st.get(n) in (PEND, MAYBE):
                            st[n] = DOC
                return st
            if isinstance(s, (ast.For, ast.AsyncFor)) and isinstance(s.iter, (ast.Tuple, ast.List)) and isinstance(s.target, ast.Name) \
                    and s.iter.elts and all(isinstance(x, ast.Name) and x.id in st for x in s.iter.elts):
                t = s.target.id
                for x in s.iter.elts:
                    loc = dict(st)
                    loc[t] = st[x.id]
                    out = self.run(s.body, loc)
                    st[x.id] = out.get(t, st[x.id])
                return st
            entry = dict(st)
            body = self.run(s.body, entry)
            self.check_settled({k: v for k, v in body.items() if k in self.created}, s.lineno, "the loop back-edge (a new iteration starts while the task may still be running)")
            # second pass from the joined state (handles created in the body are re-created each iteration)
            body2 = self.run(s.body, join(entry, body))
            return join(st, body2)
        if isinstance(s, ast.Try):
            b = self.run(s.body, st)
            for h in s.handlers:
                b = join(b, self.run(h.body, st))
            b = self.run(s.orelse, b)
            return self.run(s.finalbody, b)
        if isinstance(s, ast.Return):
            self.check_settled(st, s.lineno, "return")
            return st
        if isinstance(s, (ast.With, ast.AsyncWith)):
            return self.run(s.body, st)
        return st

    def analyse(self, fn):
        end = self.run(fn.body, {})
        self.check_settled(end, getattr(fn, "end_lineno", fn.lineno), "function exit")
        return self.findings


def connect_coroutine(CM):
    """the coroutine a connection attempt runs in: the method that is spawned as a task (create_task / ensure_future of self.X()) and that reaches the await of
    the connection factory, directly or through awaited helper coroutines of the class; falls back to the method that awaits the factory itself"""
    def awaits_factory(f, seen=()):
        if f is None or f.name in seen:
            return False
        for n in ast.walk(f.node):
            if isinstance(n, ast.Await) and "factory" in ast.unparse(n):
                return True
            if isinstance(n, ast.Await) and isinstance(n.value, ast.Call) and isinstance(n.value.func, ast.Attribute) and isinstance(n.value.func.value, ast.Name) and n.value.func.value.id == "self":
                if awaits_factory(CM.methods.get(n.value.func.attr), seen + (f.name,)):
                    return True
        return False
    spawned = []
    for f in CM.methods.values():
        for n in ast.walk(f.node):
            if isinstance(n, ast.Call) and creates_task(n) and n.args and isinstance(n.args[0], ast.Call) and isinstance(n.args[0].func, ast.Attribute) \
                    and isinstance(n.args[0].func.value, ast.Name) and n.args[0].func.value.id == "self":
                g = CM.methods.get(n.args[0].func.attr)
                if g is not None and isinstance(g.node, ast.AsyncFunctionDef) and awaits_factory(g) and g not in spawned:
                    spawned.append(g)
    if len(spawned) == 1:
        return spawned[0]
    direct = [f for f in CM.methods.values() if isinstance(f.node, ast.AsyncFunctionDef) and any(isinstance(n, ast.Await) and "factory" in ast.unparse(n) for n in ast.walk(f.node))]
    return direct[-1] if direct else None
