"""Frame worlds through the public API (E-ABS/BV): an HdlcFrame is built by its own constructor and filled by append(), octet by octet; after
every append every public accessor of the frame and its header is evaluated and compared with the ISO/IEC 13239 layout of the octets fed
so far.  Octets are symbolic bit-vectors; only the extension bit of the octets inside the two address fields is fixed by the world (it
determines where the fields end), so one world stands for every frame with those address lengths.

Nothing is bound to private names: state is reached only through HdlcFrame(), append(), and the public properties."""
from __future__ import annotations

from sa.abseval import AObj, SymbolicBranch
from sa.bitlin import BV, Vars
from sa.bveval import BVEval, Pred, pred_of

FRAME_ACCESSORS = ["payload", "frame_check_sequence", "as_bytes", "__len__", "is_expected_length"]
HEADER_ACCESSORS = ["frame_format", "frame_length", "frame_format_type", "segmentation", "destination_address", "source_address", "control", "header_check_sequence", "information_position"]
DESCR = {
    "frame_format": "(octet0 << 8) | octet1, available from 2 octets on",
    "frame_length": "low 11 bits of the format field",
    "frame_format_type": "bits 12-15 of the format field",
    "segmentation": "bit 11 of the format field",
    "is_expected_length": "header frame length == number of octets",
    "destination_address": "the octets from position 2 up to and including the first one with extension bit 1",
    "source_address": "the address that follows the destination address",
    "control": "the octet at the control position (2 + |destination| + |source|), once present",
    "header_check_sequence": "the two octets after the control field, high octet first, once both are present",
    "information_position": "control position + 3",
    "payload": "octets[information position : -2] when the frame is longer than the information position",
    "frame_check_sequence": "the last two octets, high octet first",
    "as_bytes": "a copy of all frame octets",
    "__len__": "the number of octets",
    "is_good_ffc": "the truth value of the FCS register test (one condition on the octets)",
    "is_valid": "is_good_ffc and is_expected_length",
}
RULE = {n: "R3" for n in ("frame_format", "frame_length", "frame_format_type", "segmentation", "is_expected_length")}
RULE.update({"is_good_ffc": "R1", "is_valid": "R1"})


def reference(name, o, n, d, s):
    """layout of the first n octets o[0:n] of a frame whose destination / source address have d / s octets"""
    dest = tuple(o[2:2 + d]) if n >= 2 + d else None
    src = tuple(o[2 + d:2 + d + s]) if n >= 2 + d + s else None
    c = 2 + d + s if src is not None else None
    ff = o[0].shl(8).or_(o[1]) if n >= 2 else None
    if name == "frame_format":
        return ff
    if name == "frame_length":
        return None if ff is None else ff.and_(BV.const(0x7FF))
    if name == "frame_format_type":
        return None if ff is None else ff.shr(12).and_(BV.const(0xF))
    if name == "segmentation":
        return None if ff is None else Pred(("bit", ff.bit(11)))
    if name == "destination_address":
        return dest
    if name == "source_address":
        return src
    if name == "control":
        return o[c] if c is not None and n > c else None
    if name == "header_check_sequence":
        return o[c + 1].shl(8).or_(o[c + 2]) if c is not None and n > c + 2 else None
    if name == "information_position":
        return None if c is None else c + 3
    if name == "payload":
        return tuple(o[c + 3:n][:-2] if n - (c + 3) >= 2 else ()) if c is not None and n > c + 3 else None
    if name == "frame_check_sequence":
        val = o[n - 2].shl(8).or_(o[n - 1]) if n >= 2 else None
        return [val] if (c is not None and n >= c + 5) else ([None] if c is None else [None, val])  # alternatives: defined only for a complete frame
    if name == "as_bytes":
        return tuple(o[:n])
    if name == "__len__":
        return n
    if name == "is_expected_length":
        if ff is None:
            return False  # a frame without format field has no expected length: `None == n` is False
        p = pred_of(ff.and_(BV.const(0x7FF)), n)
        return (p[0] == "always") if p[0] in ("never", "always") else Pred(p)
    raise KeyError(name)


def _norm(v):
    if isinstance(v, (list, tuple)):
        return tuple(_norm(x) for x in v)
    if isinstance(v, BV) and v.is_const():
        return v.value()
    if isinstance(v, bool):
        return v
    return v


def same(a, b):
    a, b = _norm(a), _norm(b)
    if isinstance(a, bool) != isinstance(b, bool):
        return False
    return a == b


def show(v):
    v = _norm(v)
    if isinstance(v, tuple):
        return f"<{len(v)} octet(s)>"
    if isinstance(v, BV):
        return f"<{v.width()}-bit value>"
    return repr(v)


_MEMO = {}


def frame_worlds(M, FRAME=("hdlc", "HdlcFrame"), HEADER=("hdlc", "HdlcFrameHeader")):
    """('ok', cells, per-accessor world counts) | ('bad', name, text, witness) | ('undecided', text)"""
    key = hash(tuple(sorted(M.src.items()))) if isinstance(getattr(M, "src", None), dict) else None
    if key is not None and key in _MEMO:
        return _MEMO[key]
    r = _frame_worlds(M, FRAME, HEADER)
    if key is not None:
        _MEMO[key] = r
    return r


def _frame_worlds(M, FRAME, HEADER):
    F, H = M.classes.get(FRAME), M.classes.get(HEADER)
    if F is None or H is None:
        return ("undecided", "anchor vanished: HdlcFrame / HdlcFrameHeader")
    missing = [n for n in FRAME_ACCESSORS + ["append", "header"] if M.find_method(FRAME, n) is None] + [n for n in HEADER_ACCESSORS if M.find_method(HEADER, n) is None]
    if missing:
        return ("undecided", f"anchor vanished: accessor(s) {missing}")
    cells = 0
    counts = {}
    for d, s in ((1, 1), (1, 2), (1, 4), (2, 1), (2, 2), (3, 1), (4, 1), (4, 4), (5, 2)):
        if True:
            A = BVEval(M)
            vars_ = Vars()
            total = 2 + d + s + 1 + 2 + 4 + 2
            octs = []
            for i in range(total):
                v = vars_.fresh(f"o{i}", 8)
                ext = None
                if 2 <= i < 2 + d:
                    ext = 1 if i == 2 + d - 1 else 0
                elif 2 + d <= i < 2 + d + s:
                    ext = 1 if i == 2 + d + s - 1 else 0
                octs.append(v if ext is None else BV([ext] + list(v.bits[1:]) + [0] * (8 - len(v.bits))))
            try:
                frame = A.instantiate(FRAME, [])
            except Exception as ex:  # NotConstant / AbsRaise / SymbolicBranch
                return ("undecided", f"HdlcFrame() outside the interpreted subset: {ex}")
            for n in range(0, total + 1):
                if n > 0:
                    # conditions append() itself tests on the octets (state kept by the frame / header that depends on them) are taken as true: the
                    # public accessors are then checked on that state for every valuation of what *they* test
                    A.oracle = lambda term: True
                    try:
                        r = A.apply(M.find_method(FRAME, "append"), [frame, octs[n - 1]])
                    finally:
                        A.oracle = None
                    if r[0] in ("undecided", "branch"):
                        return ("undecided", f"HdlcFrame.append outside the interpreted subset (octet {n - 1}, addresses of {d}+{s} octets): {r[1]}")
                    if r[0] == "raise":
                        return ("bad", "append", f"append() raises {r[1]} for octet {n - 1} of a frame with addresses of {d} and {s} octets", f"n={n} dest={d} src={s}")
                hr = A.apply(M.find_method(FRAME, "header"), [frame])
                if hr[0] != "value" or not isinstance(hr[1], AObj):
                    return ("undecided", f"HdlcFrame.header outside the interpreted subset: {hr[1]!r}")
                for obj, names in ((hr[1], HEADER_ACCESSORS), (frame, FRAME_ACCESSORS)):
                    for name in names:
                        fn = M.find_method(FRAME if obj is frame else HEADER, name)
                        r = A.apply(fn, [obj])
                        want = reference(name, octs, n, d, s)
                        if r[0] == "branch":
                            # the accessor tests a predicate on the octets: its value as a function of the predicates it asks
                            outs = run_all_valuations(A, fn, [obj], terms=True)
                            if any(o[1][0] in ("undecided", "branch") for o in outs):
                                return ("undecided", f"{name} outside the interpreted subset (n={n}, addresses {d}+{s}): {r[1]!r}")
                            alts_ = want if isinstance(want, list) else [want]
                            ok_ = False
                            for w_ in alts_:
                                if isinstance(w_, Pred):
                                    # equal to the reference predicate: asks exactly that predicate and returns its truth value
                                    ok_ = ok_ or all(len(dec) == 1 and dec[0][0] == repr(("bvpred", w_.key)) and res[0] == "value" and res[1] is (dec[0][1] != w_.negated) for dec, res in outs)
                                else:
                                    ok_ = ok_ or all(res[0] == "value" and same(res[1], w_) for dec, res in outs)
                            cells += 1
                            counts[name] = counts.get(name, 0) + 1
                            if not ok_:
                                dep = sorted({t for dec, res in outs for t, _ in dec})
                                return ("bad", name, f"{name} is not {DESCR[name]}: for the first {n} octet(s) of a frame with a {d}-octet destination and a {s}-octet source address its value depends on "
                                        f"{len(dep)} condition(s) on the octets that the layout does not ({'; '.join(x[:60] for x in dep[:2])})", f"n={n} dest={d} src={s}")
                            continue
                        if r[0] == "undecided":
                            return ("undecided", f"{name} outside the interpreted subset (n={n}, addresses {d}+{s}): {r[1]!r}")
                        got = f"raises {r[1]}" if r[0] == "raise" else r[1]
                        alts = want if isinstance(want, list) else [want]
                        cells += 1
                        counts[name] = counts.get(name, 0) + 1
                        if r[0] == "raise" or not any(same(got, w_) for w_ in alts):
                            return ("bad", name, f"{name} is not {DESCR[name]}: for the first {n} octet(s) of a frame with a {d}-octet destination and a {s}-octet source address it gives "
                                    f"{show(got)} instead of {show(alts[-1])}", f"n={n} dest={d} src={s}")
                # validity: is_good_ffc asks exactly one predicate (the FCS register test) and is its truth value; is_valid is true exactly when that predicate
                # and the expected-length predicate both hold -- for every prefix, whatever else the octets are
                gfn, vfn = M.find_method(FRAME, "is_good_ffc"), M.find_method(FRAME, "is_valid")
                if gfn is not None and vfn is not None:
                    gouts = run_all_valuations(A, gfn, [frame], terms=True)
                    if any(o[1][0] in ("undecided", "branch") for o in gouts):
                        return ("undecided", f"is_good_ffc outside the interpreted subset (n={n}): {gouts[0][1][1]!r}")
                    gkeys = sorted({t for dec, res in gouts for t, _ in dec})
                    cells += 1
                    counts["is_good_ffc"] = counts.get("is_good_ffc", 0) + 1
                    gconst = None
                    gneg = False
                    if not gkeys and len(gouts) == 1 and gouts[0][1][0] == "value" and isinstance(gouts[0][1][1], bool):
                        gconst = gouts[0][1][1]  # decided by the octets fed so far (e.g. the initial register)
                    elif not gkeys and len(gouts) == 1 and gouts[0][1][0] == "value" and isinstance(gouts[0][1][1], Pred):
                        gkeys, gneg = [repr(("bvpred", gouts[0][1][1].key))], gouts[0][1][1].negated  # returned as a symbolic truth value
                    elif len(gkeys) != 1 or any(res[0] != "value" or len(dec) != 1 or res[1] is not dec[0][1] for dec, res in gouts):
                        return ("bad", "is_good_ffc", f"is_good_ffc is not the FCS test alone: for the first {n} octet(s) of a frame its value depends on {len(gkeys)} condition(s) "
                                f"({'; '.join(k_[:50] for k_ in gkeys[:3])}) / is not the truth value of the register test", f"n={n} dest={d} src={s}")
                    G = gkeys[0] if gkeys else None
                    lw = reference("is_expected_length", octs, n, d, s)
                    vouts = run_all_valuations(A, vfn, [frame], terms=True)
                    if any(o[1][0] in ("undecided", "branch") for o in vouts):
                        return ("undecided", f"is_valid outside the interpreted subset (n={n}): {vouts[0][1][1]!r}")
                    cells += 1
                    counts["is_valid"] = counts.get("is_valid", 0) + 1
                    vouts2 = []
                    for dec, res in vouts:
                        # a symbolic truth value handed back (`a and b` returns one of its operands): its value under the decisions taken, or either value if it was not asked
                        if res[0] == "value" and isinstance(res[1], Pred):
                            pk = repr(("bvpred", res[1].key))
                            dd0 = dict(dec)
                            if pk in dd0:
                                vouts2.append((dec, ("value", dd0[pk] != res[1].negated)))
                            else:
                                for tv in (True, False):
                                    vouts2.append((list(dec) + [(pk, tv)], ("value", tv != res[1].negated)))
                        else:
                            vouts2.append((dec, res))
                    for dec, res in vouts2:
                        dd = dict(dec)
                        Lk = repr(("bvpred", lw.key)) if isinstance(lw, Pred) else None
                        extra = [t for t in dd if t not in (G, Lk)]
                        lval = (dd.get(Lk) != lw.negated) if (isinstance(lw, Pred) and Lk in dd) else (lw if isinstance(lw, bool) else None)
                        gval = ((dd.get(G) != gneg) if G in dd else None) if G is not None else gconst
                        if extra:
                            return ("bad", "is_valid", f"is_valid depends on a condition that is neither the FCS test nor `length field == number of octets` ({extra[0][:60]}), for the first {n} octet(s) of a frame", f"n={n} dest={d} src={s}")
                        want_v = False if (gval is False or lval is False) else True if (gval is True and lval is True) else None
                        if res[0] != "value" or want_v is None or res[1] is not want_v:
                            return ("bad", "is_valid", f"is_valid is not `FCS good and length field == number of octets`: for the first {n} octet(s) of a frame with FCS test {gval} and length test {lval} it gives "
                                    f"{res[1] if res[0] == 'value' else res!r}", f"n={n} dest={d} src={s}")
    return ("ok", cells, counts)


def run_all_valuations(A, fn, args, limit=16, terms=False):
    """every outcome of fn(*args) over the truth values of the bit-vector predicates it tests: [(decisions, result)]; with terms=True a decision is
    (repr of the predicate, value)"""
    out = []
    work = [[]]
    while work:
        script = work.pop()
        taken = []
        memo = {}

        def oracle(term, script=script, taken=taken, memo=memo):
            if term in memo:
                return memo[term]
            k = len(taken)
            v = script[k] if k < len(script) else True
            taken.append(v)
            asked.append((repr((term.op,) + tuple(term.args)) if hasattr(term, "op") else repr(term), v))
            memo[term] = v
            return v
        asked = []
        A.oracle = oracle
        try:
            r = A.apply(fn, list(args))
        finally:
            A.oracle = None
        out.append((tuple(asked) if terms else tuple(taken), r))
        for k in range(len(script), len(taken)):
            if taken[k] is True:
                work.append(taken[:k] + [False])
        if len(out) > limit:
            break
    return out


def accessor_outcomes(M, names, FRAME=("hdlc", "HdlcFrame")):
    """for the public frame accessors `names`: ('ok', worlds) | ('raise', name, class, witness) | ('undecided', text) over all prefixes of frames
    built through the API, for every truth value of the predicates (good FCS, expected length, ...) they test"""
    key = ("acc", tuple(names), hash(tuple(sorted(M.src.items()))) if isinstance(getattr(M, "src", None), dict) else id(M))
    if key in _MEMO:
        return _MEMO[key]
    r = _accessor_outcomes(M, names, FRAME)
    _MEMO[key] = r
    return r


def _accessor_outcomes(M, names, FRAME):
    fns = {n: M.find_method(FRAME, n) for n in names}
    missing = [n for n, f in fns.items() if f is None]
    if missing or M.find_method(FRAME, "append") is None:
        return ("undecided", f"anchor vanished: HdlcFrame.{missing or 'append'}")
    nw = 0
    for d, s in ((1, 1), (2, 1), (1, 4), (4, 4), (5, 2)):
        A = BVEval(M)
        vars_ = Vars()
        total = 2 + d + s + 1 + 2 + 3 + 2
        try:
            frame = A.instantiate(FRAME, [])
        except Exception as ex:
            return ("undecided", f"HdlcFrame() outside the interpreted subset: {ex}")
        for n in range(0, total + 1):
            if n > 0:
                i = n - 1
                v = vars_.fresh(f"o{i}", 8)
                ext = None
                if 2 <= i < 2 + d:
                    ext = 1 if i == 2 + d - 1 else 0
                elif 2 + d <= i < 2 + d + s:
                    ext = 1 if i == 2 + d + s - 1 else 0
                o = v if ext is None else BV([ext] + list(v.bits[1:]))
                r = A.apply(M.find_method(FRAME, "append"), [frame, o])
                if r[0] in ("undecided", "branch"):
                    return ("undecided", f"HdlcFrame.append outside the interpreted subset: {r[1]}")
                if r[0] == "raise":
                    return ("raise", "append", r[1], f"octet {i} of a frame with addresses of {d} and {s} octets")
            for name, fn in fns.items():
                nw += 1
                for dec, r in run_all_valuations(A, fn, [frame]):
                    if r[0] in ("undecided", "branch"):
                        return ("undecided", f"HdlcFrame.{name} outside the interpreted subset (n={n}): {r[1]!r}")
                    if r[0] == "raise":
                        return ("raise", name, r[1], f"the first {n} octet(s) of a frame with addresses of {d} and {s} octets (predicate values {list(dec)})")
    return ("ok", nw)


# ----------------------------------------------------------------------------------------------- predicates of the current frame, on the frame worlds
def sv_to_expr(sv, frame0):
    """source text (over the name `frame`) of a symbolic value that reads only the reader's current frame and constants; None when it reads anything else"""
    if sv == frame0:
        return "frame"
    if not isinstance(sv, tuple) or not sv:
        return None
    t = sv[0]
    if t == "c":
        return repr(sv[1]) if isinstance(sv[1], (int, bool, bytes, str, type(None))) else None
    if t in ("prop", "f0") and len(sv) >= 3 and isinstance(sv[2], str):
        b = sv_to_expr(sv[1], frame0)
        return None if b is None else f"{b}.{sv[2]}"
    if t == "len" and len(sv) >= 2:
        b = sv_to_expr(sv[1], frame0)
        return None if b is None else f"len({b})"
    if t == "cmp" and len(sv) == 4:
        op = {"Eq": "==", "NotEq": "!=", "Lt": "<", "LtE": "<=", "Gt": ">", "GtE": ">=", "Is": "is", "IsNot": "is not", "In": "in", "NotIn": "not in"}.get(sv[1])
        a, b = sv_to_expr(sv[2], frame0), sv_to_expr(sv[3], frame0)
        return None if op is None or a is None or b is None else f"({a} {op} {b})"
    if t == "sub" and len(sv) == 3:
        a, i = sv_to_expr(sv[1], frame0), sv_to_expr(sv[2], frame0)
        return None if a is None or i is None else f"{a}[{i}]"
    if t == "not" and len(sv) == 2:
        a = sv_to_expr(sv[1], frame0)
        return None if a is None else f"(not {a})"
    if t == "op" and len(sv) == 4 and sv[1] in ("Add", "Sub"):
        a, b = sv_to_expr(sv[2], frame0), sv_to_expr(sv[3], frame0)
        return None if a is None or b is None else f"({a} {'+' if sv[1] == 'Add' else '-'} {b})"
    return None


_FP_MEMO = {}


def frame_predicate_values(M, conds, target="frame.header.header_check_sequence is None", FRAME=("hdlc", "HdlcFrame")):
    """the truth values the boolean expression `target` takes on the frame worlds in which the conditions `conds` ([(source text over `frame`, polarity)], tested in
    this order, later ones only when the earlier ones had their polarity - as on the path they come from) all hold.  Worlds: every prefix of frames built through the
    public API (symbolic octets, several address layouts), every truth value of the bit-vector predicates tested.  -> a set of bools (empty: the conditions hold in no
    world), or None when some world cannot be evaluated"""
    import ast as _ast
    from sa.model import Func
    key = (id(M), tuple(conds), target)
    if key in _FP_MEMO:
        return _FP_MEMO[key]
    vals = set()
    try:
        src = "def __frame_predicates(frame):\n" + "".join((f"    if not ({e}):\n        return None\n" if pol else f"    if ({e}):\n        return None\n") for e, pol in conds) + f"    if ({target}):\n        return True\n    return False\n"
        node = _ast.parse(src).body[0]
        fn = Func("hdlc", None, "__frame_predicates", node)
        app = M.find_method(FRAME, "append")
        if app is None:
            raise ValueError("append")
        for d, s in ((1, 1), (2, 1), (1, 2), (4, 4)):
            A = BVEval(M)
            vars_ = Vars()
            total = 2 + d + s + 1 + 2 + 3 + 2
            frame = A.instantiate(FRAME, [])
            for n in range(0, total + 1):
                if n > 0:
                    i = n - 1
                    v = vars_.fresh(f"o{i}", 8)
                    ext = None
                    if 2 <= i < 2 + d:
                        ext = 1 if i == 2 + d - 1 else 0
                    elif 2 + d <= i < 2 + d + s:
                        ext = 1 if i == 2 + d + s - 1 else 0
                    o = v if ext is None else BV([ext] + list(v.bits[1:]))
                    r = A.apply(app, [frame, o])
                    if r[0] != "value":
                        raise ValueError(f"append: {r}")
                for dec, r in run_all_valuations(A, fn, [frame], limit=64):
                    if r[0] != "value" or not (r[1] is None or isinstance(r[1], bool)):
                        raise ValueError(f"predicate: {r}")
                    if r[1] is not None:
                        vals.add(r[1])
    except Exception:  # noqa - outside the interpreted subset: nothing is learnt
        vals = None
    _FP_MEMO[key] = vals
    return vals
