"""Normal form of the analysed program: functional folds are rewritten into the loop they abbreviate, so that every engine sees one form.

    x = reduce(F, IT, INIT)          ->   x = INIT
                                          for _e in IT': x = F(x, _e)
    return reduce(F, IT, INIT)       ->   _acc = INIT; for _e in IT': _acc = F(_acc, _e); return _acc

IT' is IT with a generator helper opened up: a call of a module-level function whose body is `return <expression>` is replaced by that
expression with the arguments substituted for the parameters (one level), and a generator expression `(ELT for v in SRC)` used as the
iterable becomes `for v in SRC: _e = ELT`.

The rewriting is semantics preserving for side-effect free F / IT (reduce is defined as exactly this loop); positions of the new nodes are
those of the reduce call, so reports still point at the source line.  Only reduce calls with an explicit initial value are rewritten.
"""
from __future__ import annotations

import ast
import copy


def _is_reduce(call):
    if not isinstance(call, ast.Call) or call.keywords or len(call.args) != 3:
        return False
    f = call.func
    return (isinstance(f, ast.Name) and f.id == "reduce") or (isinstance(f, ast.Attribute) and f.attr == "reduce" and isinstance(f.value, ast.Name) and f.value.id == "functools")


class _Subst(ast.NodeTransformer):
    def __init__(self, mapping):
        self.mapping = mapping

    def visit_Name(self, node):
        if isinstance(node.ctx, ast.Load) and node.id in self.mapping:
            return copy.deepcopy(self.mapping[node.id])
        return node


def _open_helper(it, funcs):
    """IT = helper(args) where helper's body is `return EXPR`: EXPR with the arguments substituted"""
    if isinstance(it, ast.Call) and isinstance(it.func, ast.Name) and it.func.id in funcs and not it.keywords:
        fn = funcs[it.func.id]
        body = [s for s in fn.body if not (isinstance(s, ast.Expr) and isinstance(s.value, ast.Constant))]
        params = [a.arg for a in fn.args.args]
        if len(body) == 1 and isinstance(body[0], ast.Return) and body[0].value is not None and len(params) == len(it.args) and not fn.args.vararg and not fn.args.kwonlyargs \
                and all(isinstance(a, (ast.Name, ast.Constant, ast.Attribute)) for a in it.args):
            bound = {n.id for n in ast.walk(body[0].value) if isinstance(n, ast.Name) and isinstance(n.ctx, ast.Store)}
            if not (bound & set(params)):
                return _Subst(dict(zip(params, it.args))).visit(copy.deepcopy(body[0].value))
    return it


def _loop(acc, F, it, at, funcs, counter):
    it = _open_helper(it, funcs)
    elem = f"_fold_elem{counter}"
    pre = []
    if isinstance(it, ast.GeneratorExp) and len(it.generators) == 1 and not it.generators[0].ifs and not it.generators[0].is_async:
        g = it.generators[0]
        target, src = g.target, g.iter
        pre = [ast.Assign(targets=[ast.Name(id=elem, ctx=ast.Store())], value=it.elt)]
    else:
        target, src = ast.Name(id=elem, ctx=ast.Store()), it
    step = ast.Assign(targets=[ast.Name(id=acc, ctx=ast.Store())],
                      value=ast.Call(func=F, args=[ast.Name(id=acc, ctx=ast.Load()), ast.Name(id=elem, ctx=ast.Load())], keywords=[]))
    loop = ast.For(target=target, iter=src, body=pre + [step], orelse=[])
    for n in ast.walk(loop):
        ast.copy_location(n, at)
    return loop


class _Rewriter(ast.NodeTransformer):
    def __init__(self, funcs):
        self.funcs = funcs
        self.n = 0

    def _stmts(self, stmts):
        out = []
        for s in stmts:
            r = self.visit(s)
            if isinstance(r, list):
                out += r
            elif r is not None:
                out.append(r)
        return out

    def generic_visit(self, node):
        for fld in ("body", "orelse", "finalbody"):
            v = getattr(node, fld, None)
            if isinstance(v, list) and v and isinstance(v[0], ast.stmt):
                setattr(node, fld, self._stmts(v))
        if isinstance(node, ast.Try):
            for h in node.handlers:
                h.body = self._stmts(h.body)
        if isinstance(node, ast.Match):
            for c in node.cases:
                c.body = self._stmts(c.body)
        return node

    def visit_Assign(self, node):
        if len(node.targets) == 1 and isinstance(node.targets[0], ast.Name) and _is_reduce(node.value):
            self.n += 1
            F, it, init = node.value.args
            acc = node.targets[0].id
            first = ast.copy_location(ast.Assign(targets=[ast.Name(id=acc, ctx=ast.Store())], value=init), node)
            ast.fix_missing_locations(first)
            return [first, _loop(acc, F, it, node, self.funcs, self.n)]
        return node

    def visit_AnnAssign(self, node):
        if isinstance(node.target, ast.Name) and node.value is not None and _is_reduce(node.value):
            return self.visit_Assign(ast.copy_location(ast.Assign(targets=[node.target], value=node.value), node))
        return node

    def visit_Return(self, node):
        if node.value is not None and _is_reduce(node.value):
            self.n += 1
            acc = f"_fold_acc{self.n}"
            F, it, init = node.value.args
            first = ast.copy_location(ast.Assign(targets=[ast.Name(id=acc, ctx=ast.Store())], value=init), node)
            ret = ast.copy_location(ast.Return(value=ast.Name(id=acc, ctx=ast.Load())), node)
            ast.fix_missing_locations(first)
            ast.fix_missing_locations(ret)
            return [first, _loop(acc, F, it, node, self.funcs, self.n), ret]
        return node


def _has_loop_level(stmts, kind):
    """a `continue` / `break` that belongs to the loop whose body is stmts (not to a nested loop)"""
    for s in stmts:
        if isinstance(s, kind):
            return True
        if isinstance(s, (ast.For, ast.While, ast.AsyncFor, ast.FunctionDef, ast.AsyncFunctionDef, ast.ClassDef)):
            if isinstance(s, (ast.For, ast.While, ast.AsyncFor)) and _has_loop_level(s.orelse, kind):
                return True
            continue
        for fld in ("body", "orelse", "finalbody"):
            v = getattr(s, fld, None)
            if isinstance(v, list) and _has_loop_level(v, kind):
                return True
        if isinstance(s, ast.Try) and any(_has_loop_level(h.body, kind) for h in s.handlers):
            return True
        if isinstance(s, ast.Match) and any(_has_loop_level(c.body, kind) for c in s.cases):
            return True
    return False


def _same_assign(a, b):
    return isinstance(a, ast.Assign) and isinstance(b, ast.Assign) and len(a.targets) == 1 and isinstance(a.targets[0], ast.Name) and ast.dump(a.targets[0]) == ast.dump(b.targets[0]) \
        and ast.dump(a.value) == ast.dump(b.value)


def _as_assign(s):
    if isinstance(s, ast.AnnAssign) and isinstance(s.target, ast.Name) and s.value is not None and s.simple:
        return ast.copy_location(ast.Assign(targets=[ast.Name(id=s.target.id, ctx=ast.Store())], value=s.value), s)
    return s


class _LoopForms(ast.NodeTransformer):
    """loops that fetch the next item by a call are brought into one form:

        x = E                                while True:
        while COND:            ->                x = E
            BODY                                 if not COND: break
            x = E                                BODY

        for x in iter(F, SENTINEL):    ->    while True:
            BODY                                 x = F()
                                                 if x == SENTINEL: break
                                                 BODY

    (the first only when BODY has no `continue` of its own: that would skip the re-fetch).  E is evaluated exactly as often and at the same points as before."""

    def __init__(self):
        self.n = 0

    def _stmts(self, stmts):
        out = []
        i = 0
        while i < len(stmts):
            s = stmts[i]
            nxt = stmts[i + 1] if i + 1 < len(stmts) else None
            a = _as_assign(s)
            if isinstance(nxt, ast.While) and not nxt.orelse and isinstance(a, ast.Assign) and len(nxt.body) >= 1 and _same_assign(a, nxt.body[-1]) \
                    and not _has_loop_level(nxt.body[:-1], ast.Continue) and any(isinstance(n, ast.Name) and n.id == a.targets[0].id for n in ast.walk(nxt.test)):
                self.n += 1
                fetch = copy.deepcopy(nxt.body[-1])
                leave = ast.If(test=ast.UnaryOp(op=ast.Not(), operand=nxt.test), body=[ast.Break()], orelse=[])
                loop = ast.While(test=ast.Constant(value=True), body=[fetch, leave] + self._stmts(nxt.body[:-1]), orelse=[])
                ast.copy_location(loop, nxt)
                ast.copy_location(fetch, nxt)
                for n in ast.walk(leave):
                    ast.copy_location(n, nxt)
                ast.fix_missing_locations(loop)
                out.append(loop)
                i += 2
                continue
            out.append(self.visit(s))
            i += 1
        return out

    def generic_visit(self, node):
        for fld in ("body", "orelse", "finalbody"):
            v = getattr(node, fld, None)
            if isinstance(v, list) and v and isinstance(v[0], ast.stmt):
                setattr(node, fld, self._stmts(v))
        if isinstance(node, ast.Try):
            for h in node.handlers:
                h.body = self._stmts(h.body)
        if isinstance(node, ast.Match):
            for c in node.cases:
                c.body = self._stmts(c.body)
        return node

    def visit_For(self, node):
        self.generic_visit(node)
        it = node.iter
        if isinstance(it, ast.Call) and isinstance(it.func, ast.Name) and it.func.id == "iter" and len(it.args) == 2 and not it.keywords and not node.orelse \
                and isinstance(node.target, ast.Name):
            self.n += 1
            fetch = ast.Assign(targets=[ast.Name(id=node.target.id, ctx=ast.Store())], value=ast.Call(func=it.args[0], args=[], keywords=[]))
            leave = ast.If(test=ast.Compare(left=ast.Name(id=node.target.id, ctx=ast.Load()), ops=[ast.Eq()], comparators=[it.args[1]]), body=[ast.Break()], orelse=[])
            loop = ast.While(test=ast.Constant(value=True), body=[fetch, leave] + node.body, orelse=[])
            for n in ast.walk(fetch):
                ast.copy_location(n, node)
            for n in ast.walk(leave):
                ast.copy_location(n, node)
            ast.copy_location(loop, node)
            ast.fix_missing_locations(loop)
            return loop
        return node


def desugar(tree: ast.Module) -> ast.Module:
    lf = _LoopForms()
    tree.body = lf._stmts(tree.body)
    if lf.n:
        ast.fix_missing_locations(tree)
    if not any(_is_reduce(n) for n in ast.walk(tree)):
        return tree
    funcs = {s.name: s for s in tree.body if isinstance(s, ast.FunctionDef)}
    rw = _Rewriter(funcs)
    tree.body = rw._stmts(tree.body)
    ast.fix_missing_locations(tree)
    return tree
