"""Normal form of the analysed program: functional folds are rewritten into the loop they abbreviate, so that every engine sees one form.

    x = reduce(F, IT, INIT)          ->   x = INIT
                                          for _e in IT': x = F(x, _e)
    return reduce(F, IT, INIT)       ->   _acc = INIT; for _e in IT': _acc = F(_acc, _e); return _acc

IT' is IT with a generator helper opened up: a call of a module-level function whose body is `return <expression>` is replaced by that
expression with the arguments substituted for the parameters (one level), and a generator expression `(ELT for v in SRC)` used as the
iterable becomes `for v in SRC: _e = ELT`.

The rewriting is semantics preserving for side-effect free F / IT (reduce is defined as exactly this loop); positions of the new nodes are
those of the reduce call, so reports still point at the source line.  Only reduce calls with an explicit initial value are rewritten.
"""
from __future__ import annotations

import ast
import copy


def _is_reduce(call):
    if not isinstance(call, ast.Call) or call.keywords or len(call.args) != 3:
        return False
    f = call.func
    return (isinstance(f, ast.Name) and f.id == "reduce") or (isinstance(f, ast.Attribute) and f.attr == "reduce" and isinstance(f.value, ast.Name) and f.value.id == "functools")


class _Subst(ast.NodeTransformer):
    def __init__(self, mapping):
        self.mapping = mapping

    def visit_Name(self, node):
        if isinstance(node.ctx, ast.Load) and node.id in self.mapping:
            return copy.deepcopy(self.mapping[node.id])
        return node


def _open_helper(it, funcs):
    """IT = helper(args) where helper's body is `return EXPR`: EXPR with the arguments substituted"""
    if isinstance(it, ast.Call) and isinstance(it.func, ast.Name) and it.func.id in funcs and not it.keywords:
        fn = funcs[it.func.id]
        body = [s for s in fn.body if not (isinstance(s, ast.Expr) and isinstance(s.value, ast.Constant))]
        params = [a.arg for a in fn.args.args]
        if len(body) == 1 and isinstance(body[0], ast.Return) and body[0].value is not None and len(params) == len(it.args) and not fn.args.vararg and not fn.args.kwonlyargs \
                and all(isinstance(a, (ast.Name, ast.Constant, ast.Attribute)) for a in it.args):
            bound = {n.id for n in ast.walk(body[0].value) if isinstance(n, ast.Name) and isinstance(n.ctx, ast.Store)}
            if not (bound & set(params)):
                return _Subst(dict(zip(params, it.args))).visit(copy.deepcopy(body[0].value))
    return it


def _loop(acc, F, it, at, funcs, counter):
    it = _open_helper(it, funcs)
    elem = f"_fold_elem{counter}"
    pre = []
    if isinstance(it, ast.GeneratorExp) and len(it.generators) == 1 and not it.generators[0].ifs and not it.generators[0].is_async:
        g = it.generators[0]
        target, src = g.target, g.iter
        pre = [ast.Assign(targets=[ast.Name(id=elem, ctx=ast.Store())], value=it.elt)]
    else:
        target, src = ast.Name(id=elem, ctx=ast.Store()), it
    step = ast.Assign(targets=[ast.Name(id=acc, ctx=ast.Store())],
                      value=ast.Call(func=F, args=[ast.Name(id=acc, ctx=ast.Load()), ast.Name(id=elem, ctx=ast.Load())], keywords=[]))
    loop = ast.For(target=target, iter=src, body=pre + [step], orelse=[])
    for n in ast.walk(loop):
        ast.copy_location(n, at)
    return loop


class _Rewriter(ast.NodeTransformer):
    def __init__(self, funcs):
        self.funcs = funcs
        self.n = 0

    def _stmts(self, stmts):
        out = []
        for s in stmts:
            r = self.visit(s)
            if isinstance(r, list):
                out += r
            elif r is not None:
                out.append(r)
        return out

    def generic_visit(self, node):
        for fld in ("body", "orelse", "finalbody"):
            v = getattr(node, fld, None)
            if isinstance(v, list) and v and isinstance(v[0], ast.stmt):
                setattr(node, fld, self._stmts(v))
        if isinstance(node, ast.Try):
            for h in node.handlers:
                h.body = self._stmts(h.body)
        if isinstance(node, ast.Match):
            for c in node.cases:
                c.body = self._stmts(c.body)
        return node

    def visit_Assign(self, node):
        if len(node.targets) == 1 and isinstance(node.targets[0], ast.Name) and _is_reduce(node.value):
            self.n += 1
            F, it, init = node.value.args
            acc = node.targets[0].id
            first = ast.copy_location(ast.Assign(targets=[ast.Name(id=acc, ctx=ast.Store())], value=init), node)
            ast.fix_missing_locations(first)
            return [first, _loop(acc, F, it, node, self.funcs, self.n)]
        return node

    def visit_AnnAssign(self, node):
        if isinstance(node.target, ast.Name) and node.value is not None and _is_reduce(node.value):
            return self.visit_Assign(ast.copy_location(ast.Assign(targets=[node.target], value=node.value), node))
        return node

    def visit_Return(self, node):
        if node.value is not None and _is_reduce(node.value):
            self.n += 1
            acc = f"_fold_acc{self.n}"
            F, it, init = node.value.args
            first = ast.copy_location(ast.Assign(targets=[ast.Name(id=acc, ctx=ast.Store())], value=init), node)
            ret = ast.copy_location(ast.Return(value=ast.Name(id=acc, ctx=ast.Load())), node)
            ast.fix_missing_locations(first)
            ast.fix_missing_locations(ret)
            return [first, _loop(acc, F, it, node, self.funcs, self.n), ret]
        return node


def _has_loop_level(stmts, kind):
    """a `continue` / `break` that belongs to the loop whose body is stmts (not to a nested loop)"""
    for s in stmts:
        if isinstance(s, kind):
            return True
        if isinstance(s, (ast.For, ast.While, ast.AsyncFor, ast.FunctionDef, ast.AsyncFunctionDef, ast.ClassDef)):
            if isinstance(s, (ast.For, ast.While, ast.AsyncFor)) and _has_loop_level(s.orelse, kind):
                return True
            continue
        for fld in ("body", "orelse", "finalbody"):
            v = getattr(s, fld, None)
            if isinstance(v, list) and _has_loop_level(v, kind):
                return True
        if isinstance(s, ast.Try) and any(_has_loop_level(h.body, kind) for h in s.handlers):
            return True
        if isinstance(s, ast.Match) and any(_has_loop_level(c.body, kind) for c in s.cases):
            return True
    return False


def _same_assign(a, b):
    return isinstance(a, ast.Assign) and isinstance(b, ast.Assign) and len(a.targets) == 1 and isinstance(a.targets[0], ast.Name) and ast.dump(a.targets[0]) == ast.dump(b.targets[0]) \
        and ast.dump(a.value) == ast.dump(b.value)


def _as_assign(s):
    if isinstance(s, ast.AnnAssign) and isinstance(s.target, ast.Name) and s.value is not None and s.simple:
        return ast.copy_location(ast.Assign(targets=[ast.Name(id=s.target.id, ctx=ast.Store())], value=s.value), s)
    return s


class _LoopForms(ast.NodeTransformer):
    """loops that fetch the next item by a call are brought into one form:

        x = E                                while True:
        while COND:            ->                x = E
            BODY                                 if not COND: break
            x = E                                BODY

        for x in iter(F, SENTINEL):    ->    while True:
            BODY                                 x = F()
                                                 if x == SENTINEL: break
                                                 BODY

    (the first only when BODY has no `continue` of its own: that would skip the re-fetch).  E is evaluated exactly as often and at the same points as before."""

    def __init__(self):
        self.n = 0

    def _stmts(self, stmts):
        out = []
        i = 0
        while i < len(stmts):
            s = stmts[i]
            nxt = stmts[i + 1] if i + 1 < len(stmts) else None
            a = _as_assign(s)
            if isinstance(nxt, ast.While) and not nxt.orelse and isinstance(a, ast.Assign) and len(nxt.body) >= 1 and _same_assign(a, nxt.body[-1]) \
                    and not _has_loop_level(nxt.body[:-1], ast.Continue) and any(isinstance(n, ast.Name) and n.id == a.targets[0].id for n in ast.walk(nxt.test)):
                self.n += 1
                fetch = copy.deepcopy(nxt.body[-1])
                leave = ast.If(test=ast.UnaryOp(op=ast.Not(), operand=nxt.test), body=[ast.Break()], orelse=[])
                loop = ast.While(test=ast.Constant(value=True), body=[fetch, leave] + self._stmts(nxt.body[:-1]), orelse=[])
                ast.copy_location(loop, nxt)
                ast.copy_location(fetch, nxt)
                for n in ast.walk(leave):
                    ast.copy_location(n, nxt)
                ast.fix_missing_locations(loop)
                out.append(loop)
                i += 2
                continue
            out.append(self.visit(s))
            i += 1
        return out

    def generic_visit(self, node):
        for fld in ("body", "orelse", "finalbody"):
            v = getattr(node, fld, None)
            if isinstance(v, list) and v and isinstance(v[0], ast.stmt):
                setattr(node, fld, self._stmts(v))
        if isinstance(node, ast.Try):
            for h in node.handlers:
                h.body = self._stmts(h.body)
        if isinstance(node, ast.Match):
            for c in node.cases:
                c.body = self._stmts(c.body)
        return node

    def visit_For(self, node):
        self.generic_visit(node)
        it = node.iter
        if isinstance(it, ast.Call) and isinstance(it.func, ast.Name) and it.func.id == "iter" and len(it.args) == 2 and not it.keywords and not node.orelse \
                and isinstance(node.target, ast.Name):
            self.n += 1
            fetch = ast.Assign(targets=[ast.Name(id=node.target.id, ctx=ast.Store())], value=ast.Call(func=it.args[0], args=[], keywords=[]))
            leave = ast.If(test=ast.Compare(left=ast.Name(id=node.target.id, ctx=ast.Load()), ops=[ast.Eq()], comparators=[it.args[1]]), body=[ast.Break()], orelse=[])
            loop = ast.While(test=ast.Constant(value=True), body=[fetch, leave] + node.body, orelse=[])
            for n in ast.walk(fetch):
                ast.copy_location(n, node)
            for n in ast.walk(leave):
                ast.copy_location(n, node)
            ast.copy_location(loop, node)
            ast.fix_missing_locations(loop)
            return loop
        return node


def _exists_form(fn):
    """a function whose body is `for x in IT: if C: return True` / `return False` (or the dual with `not` / False / True) is `return any(C for x in IT)` (`all(...)`)"""
    body = [s_ for s_ in fn.body if not (isinstance(s_, ast.Expr) and isinstance(s_.value, ast.Constant))]
    if len(body) != 2 or not isinstance(body[0], ast.For) or body[0].orelse or not isinstance(body[1], ast.Return) or not isinstance(body[1].value, ast.Constant):
        return False
    loop, last = body
    if len(loop.body) != 1 or not isinstance(loop.body[0], ast.If) or loop.body[0].orelse or len(loop.body[0].body) != 1:
        return False
    inner = loop.body[0].body[0]
    if not (isinstance(inner, ast.Return) and isinstance(inner.value, ast.Constant) and isinstance(inner.value.value, bool) and isinstance(last.value.value, bool)) or inner.value.value == last.value.value:
        return False
    test = loop.body[0].test
    if inner.value.value is True:
        call, elt = "any", test
    else:
        call, elt = "all", ast.UnaryOp(op=ast.Not(), operand=test)
    gen = ast.GeneratorExp(elt=elt, generators=[ast.comprehension(target=loop.target, iter=loop.iter, ifs=[], is_async=0)])
    ret = ast.Return(value=ast.Call(func=ast.Name(id=call, ctx=ast.Load()), args=[gen], keywords=[]))
    for n in ast.walk(ret):
        ast.copy_location(n, loop)
    keep = [s_ for s_ in fn.body if isinstance(s_, ast.Expr) and isinstance(s_.value, ast.Constant)]
    fn.body = keep + [ret]
    return True


def _stable_alias_inline(cls: ast.ClassDef):
    """locals that merely abbreviate a *stable* field of the object are written out again:

        ev = self._event; is_set = ev.is_set; while not is_set(): ...     ->     while not self._event.is_set(): ...

    A field is stable when no method except __init__ assigns it (so the object it names is the same whenever it is read).  Only locals that are
    assigned exactly once in the function, at its top level, from `self.<stable field>` or from an attribute of such a local are replaced."""
    rebound = set()
    for f in cls.body:
        if isinstance(f, (ast.FunctionDef, ast.AsyncFunctionDef)) and f.name != "__init__":
            for n in ast.walk(f):
                tg = []
                if isinstance(n, ast.Assign):
                    tg = n.targets
                elif isinstance(n, (ast.AugAssign, ast.AnnAssign)):
                    tg = [n.target]
                elif isinstance(n, (ast.For, ast.AsyncFor)):
                    tg = [n.target]
                elif isinstance(n, (ast.With, ast.AsyncWith)):
                    tg = [i.optional_vars for i in n.items if i.optional_vars is not None]
                elif isinstance(n, ast.Delete):
                    tg = n.targets
                for t in tg:
                    for x in ast.walk(t):
                        if isinstance(x, ast.Attribute) and isinstance(x.value, ast.Name) and x.value.id == "self" and isinstance(x.ctx, (ast.Store, ast.Del)):
                            rebound.add(x.attr)
    n_done = 0
    for f in cls.body:
        if not isinstance(f, (ast.FunctionDef, ast.AsyncFunctionDef)) or not f.args.args or f.args.args[0].arg != "self":
            continue
        params = {a.arg for a in f.args.args + f.args.kwonlyargs + f.args.posonlyargs} | ({f.args.vararg.arg} if f.args.vararg else set()) | ({f.args.kwarg.arg} if f.args.kwarg else set())
        stores = {}
        for n in ast.walk(f):
            if isinstance(n, ast.Name) and isinstance(n.ctx, (ast.Store, ast.Del)):
                stores[n.id] = stores.get(n.id, 0) + 1
            elif isinstance(n, (ast.Global, ast.Nonlocal)):
                for g in n.names:
                    stores[g] = 99
        alias = {}
        for st in f.body:
            if isinstance(st, ast.Assign) and len(st.targets) == 1 and isinstance(st.targets[0], ast.Name) and stores.get(st.targets[0].id) == 1 and st.targets[0].id not in params:
                v = st.value
                chain = []
                while isinstance(v, ast.Attribute):
                    chain.append(v.attr)
                    v = v.value
                if not chain or not isinstance(v, ast.Name):
                    continue
                if v.id == "self" and chain[-1] not in rebound and not chain[-1].startswith("__"):
                    alias[st.targets[0].id] = st.value
                elif v.id in alias:
                    alias[st.targets[0].id] = _Subst(alias).visit(copy.deepcopy(st.value))
        if not alias:
            continue

        class _R(ast.NodeTransformer):
            def visit_Name(self, node):
                if isinstance(node.ctx, ast.Load) and node.id in alias:
                    new = copy.deepcopy(alias[node.id])
                    for x in ast.walk(new):
                        ast.copy_location(x, node)
                    return new
                return node
        for st in f.body:
            _R().visit(st)
        n_done += len(alias)
    return n_done


class _ViewBlocks(ast.NodeTransformer):
    """`with memoryview(E) as v: BODY`  ->  `v = memoryview(E); BODY`  (leaving the block only releases the read-only view)"""

    def __init__(self):
        self.n = 0

    def _flat(self, stmts):
        out = []
        for s_ in stmts:
            s_ = self.visit(s_)
            if isinstance(s_, ast.With) and all(isinstance(it.context_expr, ast.Call) and isinstance(it.context_expr.func, ast.Name) and it.context_expr.func.id == "memoryview"
                                               and (it.optional_vars is None or isinstance(it.optional_vars, ast.Name)) for it in s_.items):
                self.n += 1
                for it in s_.items:
                    if it.optional_vars is not None:
                        a = ast.Assign(targets=[ast.Name(id=it.optional_vars.id, ctx=ast.Store())], value=it.context_expr)
                        ast.copy_location(a, s_)
                        ast.fix_missing_locations(a)
                        out.append(a)
                out.extend(s_.body)
            else:
                out.append(s_)
        return out

    def generic_visit(self, node):
        super().generic_visit(node)
        for fld in ("body", "orelse", "finalbody"):
            v = getattr(node, fld, None)
            if isinstance(v, list) and v and isinstance(v[0], ast.stmt):
                setattr(node, fld, self._flat(v))
        return node


def _handler_aliases(tree: ast.Module) -> int:
    """`except NAME:` where NAME is bound once, at module level, to a tuple of exception classes (or to one class) is the same as naming the classes in
    the handler: the handler is rewritten to the tuple, so every analysis sees the classes"""
    bound, count = {}, {}
    for s_ in tree.body:
        tgs = s_.targets if isinstance(s_, ast.Assign) else [s_.target] if isinstance(s_, ast.AnnAssign) and s_.value is not None else []
        for t in tgs:
            if isinstance(t, ast.Name):
                count[t.id] = count.get(t.id, 0) + 1
                v = s_.value
                elts = v.elts if isinstance(v, ast.Tuple) else [v]
                if elts and all(isinstance(e, (ast.Name, ast.Attribute)) and ast.unparse(e).split(".")[-1][:1].isupper() and
                                (ast.unparse(e).endswith(("Error", "Exception", "Warning", "Interrupt", "Exit")) or ast.unparse(e).split(".")[-1] in ("StopIteration", "StopAsyncIteration")) for e in elts):
                    bound[t.id] = v
    # (rebound anywhere, or assigned inside a function through `global`: not an alias)
    for n in ast.walk(tree):
        if isinstance(n, ast.Global):
            for g in n.names:
                bound.pop(g, None)
    bound = {k: v for k, v in bound.items() if count.get(k) == 1}
    if not bound:
        return 0
    n_rw = 0
    for n in ast.walk(tree):
        if isinstance(n, ast.ExceptHandler) and n.type is not None:
            parts = n.type.elts if isinstance(n.type, ast.Tuple) else [n.type]
            if any(isinstance(x, ast.Name) and x.id in bound for x in parts):
                new = []
                for x in parts:
                    if isinstance(x, ast.Name) and x.id in bound:
                        v = bound[x.id]
                        new += [ast.copy_location(ast.parse(ast.unparse(e), mode="eval").body, x) for e in (v.elts if isinstance(v, ast.Tuple) else [v])]
                    else:
                        new.append(x)
                n.type = ast.copy_location(ast.Tuple(elts=new, ctx=ast.Load()), n.type) if len(new) > 1 else new[0]
                n_rw += 1
    return n_rw


def desugar(tree: ast.Module) -> ast.Module:
    vb = _ViewBlocks()
    vb.visit(tree)
    if _handler_aliases(tree):
        ast.fix_missing_locations(tree)
    n_al = sum(_stable_alias_inline(c) for c in ast.walk(tree) if isinstance(c, ast.ClassDef))
    if n_al:
        ast.fix_missing_locations(tree)
    lf = _LoopForms()
    tree.body = lf._stmts(tree.body)
    n_ex = sum(1 for n in ast.walk(tree) if isinstance(n, ast.FunctionDef) and _exists_form(n))
    if n_ex:
        ast.fix_missing_locations(tree)
    if lf.n:
        ast.fix_missing_locations(tree)
    if not any(_is_reduce(n) for n in ast.walk(tree)):
        return tree
    funcs = {s.name: s for s in tree.body if isinstance(s, ast.FunctionDef)}
    rw = _Rewriter(funcs)
    tree.body = rw._stmts(tree.body)
    ast.fix_missing_locations(tree)
    return tree
