"""Abstract parse results from the construct-grammar IR, and the decoders' normalisers interpreted on them (E-ABS).

For a grammar root the kind-set of every position is known from the IR (sa/excflow.IRTypes).  An *abstract parse result* picks one kind per
position: integers, texts, date-times are typed symbols; structs are containers with exactly the members the chosen struct kind has; a
constant Computed member (the discriminator a variant carries) has its value.  The family generated is a star around a base object: the
base plus every object that differs from it in exactly one position (another kind there, an empty / longer list), which covers every partial
operation a normaliser applies to a single position.

The public normaliser of the module is then interpreted on each object.  Conditions on symbolic values are explored both ways (bounded);
what can leave the normaliser -- definite exception classes, with try/except, suppress, match, helper classes interpreted as written -- is
collected."""
from __future__ import annotations

from sa.abseval import AbsEval, AObj, Sym
from sa.consir import Expr, N
from sa.lameval import Ctx, LamEval


def _rich_first(k):
    """order of kinds: the base object takes the richest kind of every position (structs, then lists, scalars, None last)"""
    return ({"node": 0, "list": 1}.get(k[0], 3 if k[0] == "none" else 2), repr(k))


class Gen:
    def __init__(self, T, M, mod):
        self.T, self.M, self.mod = T, M, mod
        self.le = LamEval(M)
        self.n = 0
        import ast as _ast
        import re as _re
        lits = []
        for n_ in _ast.walk(M.mods[mod]):
            if isinstance(n_, _ast.Constant) and isinstance(n_.value, str) and _re.fullmatch(r"\d{1,3}(\.\d{1,3}){5}", n_.value) and n_.value not in lits:
                lits.append(n_.value)
        # the codes of the non-register fields of the common name table (clock, meter id / type, list version): normalisers treat them specially
        try:
            nm = self.le.module_env("obis_map").get("obis_name_map")
            if isinstance(nm, dict):
                for cde, name in nm.items():
                    if isinstance(name, str) and any(t_ in name for t_ in ("datetime", "meter_type", "meter_id", "list_ver")):
                        code = f"0.0.{cde}.255"
                        if code not in lits:
                            lits.insert(0, code)
        except Exception:  # noqa
            pass
        self.literals = lits[:10]
        # lengths the module itself distinguishes lists by: the lengths of its constant lists of field names (positional layouts)
        lens = set()

        def rec(v, d=0):
            if d > 3:
                return
            if isinstance(v, (list, tuple)) and v and all(isinstance(x, str) for x in v):
                lens.add(len(v))
            elif isinstance(v, (list, tuple)):
                for x in v:
                    rec(x, d + 1)
            elif isinstance(v, dict):
                for x in v.values():
                    rec(x, d + 1)
        try:
            for v_ in self.le.module_env(mod).values():
                rec(v_)
        except Exception:  # noqa
            pass
        self.list_lengths = sorted(n_ for n_ in lens if 2 < n_ <= 24)[:6]

    def scalar(self, kind):
        self.n += 1
        t = kind[0]
        if t == "int":
            return Sym(f"i{self.n}", "int")
        if t in ("str", "enum"):
            return Sym(f"s{self.n}", "str")
        if t == "none":
            return None
        if t == "bytes":
            return Sym(f"b{self.n}", "bytes")
        if t == "datetime":
            return Sym(f"dt{self.n}", "datetime")
        if t in ("decimal", "num"):
            return Sym(f"d{self.n}", "Decimal")
        return Sym(f"x{self.n}", None)

    def member_value(self, m: N):
        """(base, [variants]) of the value a member yields"""
        if m.kind == "Computed" and isinstance(m.a.get("expr"), Expr):
            e = m.a["expr"]
            try:
                v = self.le.call_lambda(e.node, [Ctx()], e.mod or self.mod, extra=dict(self.le.module_env(e.mod or self.mod)))
                if isinstance(v, (str, int, bool)) or v is None:
                    return v, []
            except Exception:
                pass
        kinds = sorted(self.T.result(m), key=_rich_first)
        return self.of_kinds(kinds)

    def of_kinds(self, kinds, depth=0):
        if not kinds:
            return None, []
        base, variants = self.of_kind(kinds[0], depth)
        for k in kinds[1:]:
            variants.append(self.of_kind(k, depth)[0])
        return base, variants

    def of_kind(self, kind, depth=0):
        if depth > 12:
            return Sym("deep", None), []
        if kind[0] == "node":
            members = self.T.members(kind)
            base = {}
            var = []
            subs = {}
            for name, m in members.items():
                b, vs = self.member_value(m)
                base[name] = b
                subs[name] = vs
            for name, vs in subs.items():
                for v in vs:
                    d = dict(base)
                    d[name] = v
                    var.append(AObj("Container", d))
            # an element that carries an OBIS code: the codes the module itself names (clock, meter type, ...) select special handling in the
            # normaliser, so each of them is tried with every kind of the other members
            if "obis" in members and (self.literals or subs["obis"]):
                others = [n_ for n_ in members if n_ != "obis"]
                # (the other alternatives of the code itself -- absent, text -- are crossed with the other members in the same way)
                for lit in list(self.literals) + list(subs["obis"]):
                    d0 = dict(base)
                    d0["obis"] = lit
                    var.append(AObj("Container", d0))
                    for n_ in others:
                        for v in subs[n_]:
                            d = dict(d0)
                            d[n_] = v
                            var.append(AObj("Container", d))
            return AObj("Container", dict(base)), var
        if kind[0] == "list":
            ek = sorted(kind[1], key=_rich_first)
            b, vs = self.of_kinds(ek, depth + 1)
            if not ek:
                return [], []
            variants = [[]] + [[v] for v in vs] + [[b, self.of_kinds(ek, depth + 1)[0]]]
            if depth <= 1:
                # positional layouts: lists of the lengths the module distinguishes, every position of the same kind - once per kind an element can have
                for n_ in self.list_lengths:
                    for proto in [None] + list(vs):
                        full = []
                        for i_ in range(n_):
                            el = self.of_kinds(ek, depth + 1)[0] if proto is None else (AObj(proto.pytype, dict(proto.attrs), proto.name, proto.cls_key) if isinstance(proto, AObj) else proto)
                            if isinstance(el, AObj) and "index" in el.attrs:
                                el.attrs["index"] = i_
                            full.append(el)
                        variants.append(full)
            return [b], variants
        return self.scalar(kind), []


def run_valuations(A, fn, args, limit=24, with_terms=False):
    """every outcome of fn(*args) when conditions on abstract values are taken both ways (depth-first, bounded)"""
    out, work = [], [[]]
    while work and len(out) < limit:
        script = work.pop()
        taken, memo, terms = [], {}, []

        def oracle(term, script=script, taken=taken, memo=memo, terms=terms):
            key = repr(term)
            if key in memo:
                return memo[key]
            k = len(taken)
            v = script[k] if k < len(script) else True
            taken.append(v)
            terms.append(term)
            memo[key] = v
            return v
        A.oracle = oracle
        try:
            r = A.apply(fn, list(args))
        finally:
            A.oracle = None
        out.append((tuple(taken), r, list(terms)) if with_terms else (tuple(taken), r))
        for k in range(len(script), len(taken)):
            if taken[k] is True:
                work.append(taken[:k] + [False])
    return out, bool(work)


def normaliser_outcomes(M, T, mod, root: N, fn, hooks=None):
    """[(description, result)] of the public normaliser fn on the star family of abstract parse results of `root`; second value: undecided text or None"""
    g = Gen(T, M, mod)
    outs = []
    n_objs = 0
    for vk in sorted(T.result(root), key=_rich_first):
        base, variants = g.of_kind(vk)
        for i, obj in enumerate([base] + variants):
            n_objs += 1
            A = AbsEval(M, hooks=hooks or {})
            rs, truncated = run_valuations(A, fn, [obj])
            for cls_, line_, text_ in A.__dict__.get("may", []):
                outs.append((f"{'base object' if i == 0 else 'variant ' + str(i)} of {mod}.{root.src or root.name or root.kind}: {text_}", ("raise", cls_)))
            for dec, r in rs:
                if r[0] == "undecided":
                    return outs, n_objs, f"{fn.name} outside the interpreted subset on an abstract parse result ({'base' if i == 0 else 'variant ' + str(i)}): {r[1]}"
                outs.append((f"{'base object' if i == 0 else 'variant ' + str(i)} of {mod}.{root.src or root.name or root.kind}", r))
    return outs, n_objs, None
