"""Abstract parse results from the construct-grammar IR, and the decoders' normalisers interpreted on them (E-ABS).

For a grammar root the kind-set of every position is known from the IR (sa/excflow.IRTypes).  An *abstract parse result* picks one kind per
position: integers, texts, date-times are typed symbols; structs are containers with exactly the members the chosen struct kind has; a
constant Computed member (the discriminator a variant carries) has its value.  The family generated is a star around a base object: the
base plus every object that differs from it in exactly one position (another kind there, an empty / longer list), which covers every partial
operation a normaliser applies to a single position.

The public normaliser of the module is then interpreted on each object.  Conditions on symbolic values are explored both ways (bounded);
what can leave the normaliser -- definite exception classes, with try/except, suppress, match, helper classes interpreted as written -- is
collected."""
from __future__ import annotations

from sa.abseval import AbsEval, AObj, Sym
from sa.consir import Expr, N
from sa.lameval import Ctx, LamEval


class Gen:
    def __init__(self, T, M, mod):
        self.T, self.M, self.mod = T, M, mod
        self.le = LamEval(M)
        self.n = 0

    def scalar(self, kind):
        self.n += 1
        t = kind[0]
        if t == "int":
            return Sym(f"i{self.n}", "int")
        if t in ("str", "enum"):
            return Sym(f"s{self.n}", "str")
        if t == "none":
            return None
        if t == "bytes":
            return Sym(f"b{self.n}", "bytes")
        if t == "datetime":
            return Sym(f"dt{self.n}", "datetime")
        if t in ("decimal", "num"):
            return Sym(f"d{self.n}", "Decimal")
        return Sym(f"x{self.n}", None)

    def member_value(self, m: N):
        """(base, [variants]) of the value a member yields"""
        if m.kind == "Computed" and isinstance(m.a.get("expr"), Expr):
            e = m.a["expr"]
            try:
                v = self.le.call_lambda(e.node, [Ctx()], e.mod or self.mod, extra=dict(self.le.module_env(e.mod or self.mod)))
                if isinstance(v, (str, int, bool)) or v is None:
                    return v, []
            except Exception:
                pass
        kinds = sorted(self.T.result(m), key=repr)
        return self.of_kinds(kinds)

    def of_kinds(self, kinds, depth=0):
        if not kinds:
            return None, []
        base, variants = self.of_kind(kinds[0], depth)
        for k in kinds[1:]:
            variants.append(self.of_kind(k, depth)[0])
        return base, variants

    def of_kind(self, kind, depth=0):
        if depth > 12:
            return Sym("deep", None), []
        if kind[0] == "node":
            members = self.T.members(kind)
            base = {}
            var = []
            subs = {}
            for name, m in members.items():
                b, vs = self.member_value(m)
                base[name] = b
                subs[name] = vs
            for name, vs in subs.items():
                for v in vs:
                    d = dict(base)
                    d[name] = v
                    var.append(AObj("Container", d))
            return AObj("Container", dict(base)), var
        if kind[0] == "list":
            ek = sorted(kind[1], key=repr)
            b, vs = self.of_kinds(ek, depth + 1)
            if not ek:
                return [], []
            variants = [[]] + [[v] for v in vs] + [[b, self.of_kinds(ek, depth + 1)[0]]]
            return [b], variants
        return self.scalar(kind), []


def run_valuations(A, fn, args, limit=24):
    """every outcome of fn(*args) when conditions on abstract values are taken both ways (depth-first, bounded)"""
    out, work = [], [[]]
    while work and len(out) < limit:
        script = work.pop()
        taken, memo = [], {}

        def oracle(term, script=script, taken=taken, memo=memo):
            key = repr(term)
            if key in memo:
                return memo[key]
            k = len(taken)
            v = script[k] if k < len(script) else True
            taken.append(v)
            memo[key] = v
            return v
        A.oracle = oracle
        try:
            r = A.apply(fn, list(args))
        finally:
            A.oracle = None
        out.append((tuple(taken), r))
        for k in range(len(script), len(taken)):
            if taken[k] is True:
                work.append(taken[:k] + [False])
    return out, bool(work)


def normaliser_outcomes(M, T, mod, root: N, fn, hooks=None):
    """[(description, result)] of the public normaliser fn on the star family of abstract parse results of `root`; second value: undecided text or None"""
    g = Gen(T, M, mod)
    outs = []
    n_objs = 0
    for vk in sorted(T.result(root), key=repr):
        base, variants = g.of_kind(vk)
        for i, obj in enumerate([base] + variants):
            n_objs += 1
            A = AbsEval(M, hooks=hooks or {})
            rs, truncated = run_valuations(A, fn, [obj])
            for dec, r in rs:
                if r[0] == "undecided":
                    return outs, n_objs, f"{fn.name} outside the interpreted subset on an abstract parse result ({'base' if i == 0 else 'variant ' + str(i)}): {r[1]}"
                outs.append((f"{'base object' if i == 0 else 'variant ' + str(i)} of {mod}.{root.src or root.name or root.kind}", r))
    return outs, n_objs, None
