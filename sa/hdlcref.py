"""Reference automaton for the HDLC reader (from the property texts, ISO/IEC 13239 and RFC 1662 §4) and the
conformance / typestate / skeleton / buffer-contract analyses over the extracted decision table.

Every function returns a list of Result(kind, tag, instance, text, line, witness) with kind in
{'ok','bad','undecided'}; property modules map tags to their own rule ids.
"""
from __future__ import annotations

import ast
from dataclasses import dataclass

from sa.hdlcmodel import FRAME, MOD, READER, SELF, HdlcModel, loc, FLAG
from sa.paths import Engine, show_path, show_sv, strip_epoch


@dataclass
class Result:
    kind: str
    tag: str
    instance: str
    text: str
    line: int = 0
    witness: str = None



def _memo_on_model(fn):
    """results of a pure function of the model, computed once per model; callers get their own copies of the Result records"""
    import dataclasses
    import functools
    cache = {}

    @functools.wraps(fn)
    def wrapper(m):
        ent = cache.get(id(m))
        if ent is None or ent[0] is not m:
            ent = (m, fn(m))
            cache[id(m)] = ent
        r = ent[1]
        if isinstance(r, list):
            return [dataclasses.replace(x) if dataclasses.is_dataclass(x) else x for x in r]
        if isinstance(r, tuple) and r and isinstance(r[0], list):
            return ([dataclasses.replace(x) if dataclasses.is_dataclass(x) else x for x in r[0]],) + r[1:]
        return r
    return wrapper


NOT_A = [{"A1": False}, {"A2": False}, {"A3": False}]


def _and(base, alts):
    return [dict(base, **a) for a in alts]


# ---------------------------------------------------------------------------------------------- expectations
def _common(post, allow_flag_trim=False):
    if post.pops != 1:
        return f"consumes {post.pops} octets in one step instead of exactly one"
    if post.other:
        return f"unexpected effect {post.other}"
    if "flag" in post.trims and not allow_flag_trim:
        return "skips buffered input to the next flag although the reader is not hunting"
    return None


def exp_start(post, sp):
    c = _common(post)
    if c:
        return c
    if post.frame != "fresh":
        return f"flag in hunt mode must start a fresh frame (frame'={post.frame})"
    if post.appends or post.emitted:
        return "flag in hunt mode must not append or emit"
    if post.pending == "set":
        return "frame start sets the pending escape"
    return None


def exp_fill(post, sp):
    c = _common(post)
    if c:
        return c
    if post.frame not in ("same", "fresh"):
        return f"inter-frame fill flag must leave the empty frame in place (frame'={post.frame})"
    if post.appends or post.emitted:
        return "inter-frame fill flag must not append or emit"
    if post.pending == "set":
        return "inter-frame fill sets the pending escape"
    return None


def exp_emit(post, sp):
    c = _common(post)
    if c:
        return c
    if post.emitted != ["entry"]:
        return f"closing flag must deliver exactly the current frame (emitted {post.emitted})"
    if post.appends:
        return "closing flag must not append to the delivered frame"
    if post.frame != "fresh":
        return f"after delivery a fresh frame must be started (frame'={post.frame})"
    return None


def exp_extend(value, pending=None):
    def f(post, sp):
        c = _common(post, allow_flag_trim=bool(sp.lits.get("M1")))
        if c:
            return c
        if sp.lits.get("M1"):
            return exp_discard(post, sp, appended_ok=True)
        if post.frame != "same":
            return f"in-frame octet must keep the current frame (frame'={post.frame})"
        if post.emitted:
            return "in-frame octet must not emit"
        if post.appends != [("entry", value)]:
            return f"frame must be extended by exactly {value} (got {post.appends})"
        if pending is not None and post.pending != pending:
            return f"pending escape must be {pending} (got {post.pending})"
        if pending is None and post.pending == "set":
            return "pending escape set on a data octet"
        return None
    return f


def exp_escape(post, sp):
    c = _common(post)
    if c:
        return c
    if post.appends:
        return f"control escape must not be stored in the frame (appended {post.appends})"
    if post.pending != "set":
        return f"control escape must set the pending-escape flag (pending'={post.pending})"
    if post.frame != "same" or post.emitted:
        return "control escape must keep the frame and emit nothing"
    return None


def exp_noop(post, sp):
    if post.pops != 1:
        return f"consumes {post.pops} octets"
    if post.frame != "same" or post.appends or post.emitted or post.pending is not None or post.raw_ops or post.other:
        return f"octet outside a frame must have no effect ({post.brief()})"
    return None


def exp_discard(post, sp, appended_ok=False):
    if post.pops != 1:
        return f"consumes {post.pops} octets"
    if post.emitted:
        return "a discarded frame must not be delivered"
    if post.frame not in ("none", "fresh"):
        return f"a discarded frame must be abandoned completely (frame'={post.frame})"
    if post.appends and not appended_ok:
        return "discard row appends to the frame"
    if post.other:
        return f"unexpected effect {post.other}"
    return None


IN = {"H": False}
ROWS = [
    # id, description, guard alternatives, expectation, demanded by
    ("start", "flag while hunting starts a frame", [{"F": True, "H": True}], exp_start, {"C02"}),
    ("fill", "flag on an empty frame is inter-frame fill", [{"F": True, "H": False, "E": True}], exp_fill, {"C02"}),
    ("emit", "closing flag at the announced length delivers the frame",
     _and({"F": True, "H": False, "E": False, "S": False, "L": True}, NOT_A), exp_emit, {"C02", "C01"}),
    ("flag-data", "flag inside the information field is data (no stuffing)",
     _and({"F": True, "H": False, "E": False, "S": False, "U": False, "L": False}, NOT_A), exp_extend(("const", 0x7E)), {"C02"}),
    ("data", "data octet without stuffing", [{"F": False, "H": False, "U": False}], exp_extend(("popped",)), {"C02"}),
    ("unescape", "octet after a control escape is un-stuffed", [{"F": False, "H": False, "U": True, "P": True}],
     exp_extend(("popped^", 0x20), pending="clear"), {"C02"}),
    ("escape", "control escape sets the pending flag", [{"F": False, "H": False, "U": True, "P": False, "C": True}], exp_escape, {"C02"}),
    ("data-stuffed", "ordinary octet with stuffing", [{"F": False, "H": False, "U": True, "P": False, "C": False}], exp_extend(("popped",)), {"C02"}),
    ("hunt", "non-flag octet while hunting is ignored", [{"F": False, "H": True}], exp_noop, {"C02", "C06"}),
    ("too-short", "flag before the header check sequence discards the frame", [{"F": True, "H": False, "E": False, "S": True}], exp_discard, {"C16"}),
    ("abort", "escape directly before a flag aborts the frame",
     [{"F": True, "H": False, "E": False, "S": False, "A1": True, "A2": True, "A3": True}], exp_discard, {"C16"}),
]
MAXLEN = 2047


def _pure_frame_predicate(m, g):
    """the condition reads nothing but the reader's current frame object (through its properties / len) and constants"""
    frame0 = m.f0(m.roles.frame)
    seen_frame = [False]

    def ok(sv, under_frame=False):
        if not isinstance(sv, tuple) or not sv:
            return True
        if sv == frame0:
            seen_frame[0] = True
            return True
        t = sv[0]
        if t == "c":
            return True
        if t in ("g", "l", "p", "havoc", "new", "iter"):
            return False
        if t == "f0":
            return sv[1] != ("self0",) and ok(sv[1]) if sv != frame0 else True
        return all(ok(x) for x in sv[1:] if isinstance(x, tuple))
    return ok(g) and seen_frame[0]


@_memo_on_model
def conformance(m: HdlcModel):
    res = []
    for rid, desc, alts, exp, demanded in ROWS:
        ps = m.matching(alts)
        if not ps:
            res.append(Result("bad", "row:" + rid, rid, f"no path of the read step handles the case '{desc}'", m.read_fn.node.lineno))
            continue
        n_bad = 0
        for sp in ps:
            why = exp(sp.post, sp)
            if why:
                n_bad += 1
                unk = f" (under unrecognised condition(s) {[t for t, _, _ in sp.unknown]}, treated as free)" if sp.unknown else ""
                # an unrecognised condition that only looks at the current frame (its header, its length) may be another spelling of one of the frame literals
                # the row is defined by (header check sequence available, expected length, ...): whether this path belongs to the row is then not known
                frame_pred = bool(sp.unknown) and all(_pure_frame_predicate(m, g_) for _, _, g_ in sp.unknown) and id(sp) not in m.__dict__.get("free_paths", ())
                # (a frame predicate that the frame worlds show to be independent of the too-short literal is free: the path belongs to the row for some frames)
                res.append(Result("und" if frame_pred else "bad", "row:" + rid, rid, f"{desc}: {why}{unk}", loc(m, sp), witness=f"[{sp.guard_text()}] => {sp.post.brief()}"))
        if not n_bad:
            res.append(Result("ok", "row:" + rid, rid, f"{len(ps)} path(s) of the step function conform: {desc}"))
    return res


def raw_history_values(m: HdlcModel):
    """the raw-octet history (consulted by the abort test `escape directly before the flag`) records the received octets themselves"""
    res = []
    n = 0
    for sp in m.paths:
        if not m.feasible(sp):
            continue
        for op in sp.post.raw_ops:
            if isinstance(op, tuple) and op[0] == "append":
                n += 1
                if op[1] != ("popped",) and not (op[1] == ("const", m.flag) and sp.lits.get("F")):
                    res.append(Result("bad", "raw-value", "raw-history-value", "the raw-octet history records something other than the received octet (e.g. the un-stuffed value): the abort test "
                                      "`control escape directly before the closing flag` then misfires on data octets", loc(m, sp), witness=f"[{sp.guard_text()}] => {sp.post.brief()}"))
    if not res:
        res.append(Result("ok", "raw-value", "raw-octet history", f"{n} append(s): always the octet as received"))
    return res


def fresh_only_at_flag(m: HdlcModel):
    """a frame may only start at a flag octet: a fresh frame started on a non-flag octet parses mid-stream garbage as a frame"""
    res = []
    n = 0
    for sp in m.paths:
        if not m.feasible(sp) or sp.post.frame != "fresh":
            continue
        n += 1
        if sp.lits.get("F") is not True:
            res.append(Result("bad", "start-at-flag", "fresh-frame-without-flag", "a new frame is started on an octet that is not a flag (after a discard the reader must hunt for a flag; "
                              "otherwise the bogus frame swallows the following traffic)", loc(m, sp), witness=f"[{sp.guard_text()}] => {sp.post.brief()}"))
    if not res:
        res.append(Result("ok", "start-at-flag", "frame starts", f"all {n} path(s) that start a fresh frame consume a flag octet"))
    return res


def length_guard(m: HdlcModel):
    """C02/R2: the maximum frame is admitted; C19/R2: every row that extends the frame checks the length afterwards."""
    res = []
    ext = [sp for sp in m.paths if m.feasible(sp) and sp.post.appends]
    for sp in ext:
        if "M1" not in sp.lits:
            res.append(Result("bad", "cap", "append-without-guard", "frame is extended without a following maximum-length check (frame can grow without bound)",
                              loc(m, sp), witness=f"[{sp.guard_text()}] => {sp.post.brief()}"))
    thr = {sp.m_thresholds[k] for sp in m.paths for k in sp.m_thresholds}
    for t in sorted(thr):
        if t < MAXLEN:
            res.append(Result("bad", "admit", f"threshold {t}", f"frames longer than {t} octets are discarded: the 2047-octet maximum frame is not admitted", m.read_fn.node.lineno, witness=f"length guard admits <= {t}"))
        elif t > MAXLEN:
            res.append(Result("ok", "admit", f"threshold {t}", f"length guard admits {t} >= 2047 octets"))
        else:
            res.append(Result("ok", "admit", "threshold 2047", "discard-on-length test is strictly `> 2047`, evaluated after the append"))
    if not thr:
        res.append(Result("bad", "cap", "no-length-guard", "no maximum-length guard on the frame at all", m.read_fn.node.lineno))
    if ext and all("M1" in sp.lits for sp in ext):
        res.append(Result("ok", "cap", "every extension guarded", f"{len(ext)} extending path(s) are each followed by the length check whose true side discards"))
    return res


def frozen_after_emit(m: HdlcModel):
    """C01/R6: an emitted frame is never touched again: the current-frame field is rebound on the emitting path."""
    res = []
    em = [sp for sp in m.paths if m.feasible(sp) and sp.post.emitted]
    for sp in em:
        seq = sp.post.seq
        i = seq.index("emit")
        after = seq[i + 1:]
        before = seq[:i]
        if "append" in after and not any(s.startswith("frame:") for s in after[:after.index("append")]):
            res.append(Result("bad", "frozen", "append-after-emit", "an octet is appended to a frame that was already delivered", loc(m, sp), witness=sp.post.brief()))
        elif sp.post.frame not in ("fresh", "none"):
            res.append(Result("bad", "frozen", "frame-kept", "after delivery the reader keeps the delivered frame as its current frame (it will be modified by the next octet)", loc(m, sp), witness=f"[{sp.guard_text()}] => {sp.post.brief()}"))
        else:
            res.append(Result("ok", "frozen", sp.guard_text(), "current frame rebound to a fresh frame before the next pop"))
    return res


def appended_values(m: HdlcModel):
    """C01/R5: every value appended is the popped octet, its un-stuffed form on the pending row, or the flag on the flag row."""
    res = []
    for sp in m.paths:
        if not m.feasible(sp):
            continue
        for tgt, v in sp.post.appends:
            ok = (v == ("popped",) and not sp.lits.get("F")) or (v == ("popped^", 0x20) and sp.lits.get("P") and sp.lits.get("U")) \
                or (v == ("const", m.flag) and sp.lits.get("F")) or (v == ("popped",) and sp.lits.get("F"))
            if tgt != "entry" or not ok:
                res.append(Result("bad", "octets", "appended-value", f"frame receives {v} (target {tgt}) which is not the stream octet of this step", loc(m, sp), witness=f"[{sp.guard_text()}]"))
            else:
                res.append(Result("ok", "octets", sp.guard_text(), f"appends {v}"))
        if sp.post.pops != 1:
            res.append(Result("bad", "octets", "pops", f"step consumes {sp.post.pops} octets", loc(m, sp), witness=f"[{sp.guard_text()}]"))
    return res


# ---------------------------------------------------------------------------------------------- typestate (C16/R1)
@_memo_on_model
def leak_typestate(m: HdlcModel):
    """Explore the abstract automaton (mode, pending-source, raw-source) induced by the table; per-frame state set in one
    frame must be clean again before the first in-frame row of the next frame."""
    res = []
    start = ("hunt", "clean", "clean")
    seen = {start: None}
    work = [start]
    bad = {}
    feas = [sp for sp in m.paths if m.feasible(sp)]
    while work:
        st = work.pop()
        mode, pend, raw = st
        for sp in feas:
            L = sp.lits
            if "H" in L and L["H"] != (mode == "hunt"):
                continue
            if mode == "hunt" and any(k in L for k in ("E", "S", "L", "M1")) and L.get("H") is not True:
                continue
            if "E" in L and mode != "hunt" and L["E"] != (mode == "empty"):
                continue
            if "P" in L and L["P"] != (pend != "clean"):
                continue
            if mode == "empty" and L.get("S") is False:
                continue
            post = sp.post
            boundary = post.frame in ("none", "fresh") or (L.get("F") is True and mode == "empty" and not post.appends)
            # a step that ends a frame (or is inter-frame fill) separates the frames: what was recorded so far belongs to the old frame,
            # what this step records after resetting a store belongs to the new one
            p2, r2 = pend, raw
            fill = boundary and post.frame not in ("none", "fresh")
            if fill:
                p2 = "prev" if p2 == "cur" else p2
                r2 = "prev" if r2 == "cur" else r2
            # effects on per-frame state, in program order: records made before the frame is replaced belong to the old frame
            ri = 0
            for tag in post.seq:
                if tag.startswith("frame:") and boundary:
                    p2 = "prev" if p2 == "cur" else p2
                    r2 = "prev" if r2 == "cur" else r2
                elif tag == "pending":
                    pass
                elif tag == "raw" and ri < len(post.raw_ops):
                    op = post.raw_ops[ri]
                    ri += 1
                    if op == "clear":
                        r2 = "clean"
                    elif r2 == "prev":
                        bad.setdefault("raw-kept", (st, sp))  # history of the previous frame still there when this frame's octets are added
                    else:
                        r2 = "cur"
            if post.pending == "set":
                p2 = "cur"
            elif post.pending == "clear":
                p2 = "clean"
            if boundary:
                m2 = "hunt" if post.frame == "none" else "empty"
                if post.frame == "none":
                    # a discarded frame's records are stale from now on (nothing is recorded while hunting)
                    p2 = "prev" if p2 == "cur" else p2
                    r2 = "prev" if r2 == "cur" else r2
            else:
                m2 = mode if mode == "hunt" else ("inframe" if post.appends else mode)
            # use of stale state
            if mode != "hunt" and L.get("P") and pend == "prev" and post.appends:
                bad.setdefault("pending", (st, sp))
            if mode != "hunt" and raw == "prev" and (L.get("A2") or L.get("A3")) and not L.get("E"):
                bad.setdefault("raw", (st, sp))
            nxt = (m2, p2, r2)
            if nxt not in seen:
                seen[nxt] = (st, sp)
                work.append(nxt)

    def trace(st):
        out = []
        while seen.get(st):
            prev, sp = seen[st]
            out.append(f"[{sp.guard_text()}] -> {st}")
            st = prev
        return " ; ".join(reversed(out))

    if "raw-kept" in bad:
        st, sp = bad.pop("raw-kept")
        res.append(Result("bad", "raw-clear", "raw-history-kept", f"the raw-octet history `{m.roles.raw}` is not cleared between frames: it grows with every frame received",
                          loc(m, sp), witness=f"{trace(st)} ; then [{sp.guard_text()}] appends to it"))
    else:
        res.append(Result("ok", "raw-clear", "raw-octet store", "the raw-octet history is cleared before the first octet of every frame"))
    for what, (st, sp) in bad.items():
        field = m.roles.pending if what == "pending" else m.roles.raw
        res.append(Result("bad", "leak", f"{what}-leak", f"per-frame state `{field}` set in one frame is still set when the next frame's octets are processed",
                          loc(m, sp), witness=f"{trace(st)} ; then [{sp.guard_text()}] uses it"))
    if "pending" not in bad:
        res.append(Result("ok", "leak", "pending escape", f"{len(seen)} abstract states explored: a pending escape never survives from a finished/discarded frame into the next frame's first octet"))
    if "raw" not in bad:
        res.append(Result("ok", "leak", "raw-octet store", "the raw-octet history consulted by the abort test never contains octets of a previous frame"))
    return res, len(seen)


# ---------------------------------------------------------------------------------------------- read() skeleton
@_memo_on_model
def skeleton(m: HdlcModel):
    """Statements of read() outside the per-octet loop: chunk only extends the buffer (N1), hunt-mode trim only while hunting (N5),
    consumed input released on every exit (C19/R1), no other state change (N2/N3), result list returned."""
    res = []
    fn = m.read_fn
    R = m.roles
    E = Engine(m.M, keep_props=m.keep)
    paths = E.run(fn)
    chunk = fn.params[0]
    uses = [n for n in ast.walk(fn.node) if isinstance(n, ast.Name) and n.id == chunk and isinstance(n.ctx, ast.Load)]
    parents = {c: p for p in ast.walk(fn.node) for c in ast.iter_child_nodes(p)}
    bad_use = []
    n_ext = 0
    from sa.chunkcond import chunk_only, in_test, mentions as _cm, taken_for
    PC = ("p", chunk)
    SAMPLES = [b"", b"\x7e", b"\x7e\xa0\x08", b"A", b"\x7d", b"\x00" * 300, b"\xa0\x0a\x7e"]
    for u in uses:
        p = parents.get(u)
        # the single use is the sole argument of a method call; that the receiver is the input buffer (possibly through a local alias)
        # and the method appends is established on the resolved paths below (`extended`)
        ok = isinstance(p, ast.Call) and isinstance(p.func, ast.Attribute) and p.args == [u] and not p.keywords
        if ok:
            n_ext += 1
        elif not in_test(u, parents):  # a test on the chunk is judged per path below, on representative chunks
            bad_use.append(u)
    if bad_use or n_ext != 1:
        for u in bad_use or [x for x in uses if not in_test(x, parents)][1:]:
            res.append(Result("undecided", "chunk-flow", "chunk-use", "the chunk parameter is used for something other than extending the input buffer / deciding whether there is anything to do",
                              u.lineno, witness=ast.unparse(parents.get(u)) if parents.get(u) is not None else chunk))
        if not uses:
            res.append(Result("bad", "chunk-flow", "chunk-unused", "the chunk parameter is never appended to the input buffer", fn.node.lineno))
    else:
        res.append(Result("ok", "chunk-flow", "data chunk", "flows only into the buffer's extend(); nothing else reads it"))
    frame0 = m.f0(R.frame)
    n_trim_ok = 0
    for p in paths:
        if p.status != "return":
            res.append(Result("bad", "skeleton", "exit", f"read() can leave with status {p.status}", fn.node.lineno))
            continue
        H = None
        unknown = []
        cconds = []
        early = False
        for g, pol, ln in p.guards:
            if g == ("cmp", "Is", frame0, ("c", None)):
                H = pol
            elif _cm(g, PC) and chunk_only(g, PC):
                cconds.append((g, pol))
            else:
                unknown.append((show_sv(g), pol, ln))
        if cconds:
            cw = "; ".join(f"{'' if pol else 'not '}{show_sv(g)}" for g, pol in cconds)
            taken = taken_for(cconds, PC, SAMPLES)
            if taken is None:
                res.append(Result("undecided", "skeleton", "chunk-condition", f"read() branches on a condition on the chunk that cannot be evaluated on representative chunks ({cw})", fn.node.lineno))
                continue
            if not taken:
                continue  # no representative chunk takes this path
            if not any(taken):
                # only the empty chunk: nothing is added to the buffer, which the previous call left fully consumed and released
                role_fields = {R.frame, R.pending, R.raw, R.stuffing, R.abort}
                hits = [e for e in p.effects if (e[0] == "write" and e[1] == ("self0",) and e[2] in role_fields)
                        or (e[0] == "mutate" and isinstance(e[1], tuple) and e[1][:2] == ("f0", ("self0",)) and len(e[1]) > 2 and e[1][2] in role_fields)]
                if hits:
                    res.append(Result("bad", "skeleton", "empty-chunk-state", "a read() call with an empty chunk changes the reader's framing state: the frames returned depend on whether the splitting "
                                      "contains empty pieces (a frame in progress is lost)", hits[0][-1] if isinstance(hits[0][-1], int) else fn.node.lineno,
                                      witness=f"read(b'') under [{'; '.join(t for t, _, _ in unknown) or 'any state'}] writes self.{hits[0][2] if hits[0][0] == 'write' else hits[0][1][2]}"))
                elif any(e[0] in ("write", "mutate", "setitem") for e in p.effects):
                    res.append(Result("undecided", "skeleton", "empty-chunk-path", "read() changes reader state on a path only the empty chunk takes", fn.node.lineno))
                n_trim_ok += 1
                continue
            if not any(e[0] == "loop" for e in p.effects):
                early = True
                flagless = any(g == ("cmp", "In", ("c", FLAG), PC) and not pol for g, pol in cconds)
                if not (H is True and flagless):
                    # (while hunting, a chunk without a flag octet would be skipped octet by octet anyway: returning at once delivers the same frames)
                    res.append(Result("bad", "skeleton", "early-return", "read() returns without processing the buffered octets for a non-empty chunk: a frame this chunk completes is delivered only if "
                                      "another call follows", fn.node.lineno, witness=f"chunk {[x for x in taken if x][0]!r} under [{cw}]"))
        seen_loop = False
        trimmed_after = False
        extended = False
        for e in p.effects:
            if e[0] == "log":
                continue
            if e[0] == "loop":
                seen_loop = True
                continue
            if e[0] == "callm" and e[1] == m.f0(R.buffer):
                short = e[2].split(".")[-1]
                bk = m.bkind(e[2])
                if e[3] == (("p", chunk),):
                    extended = True
                    if seen_loop:
                        res.append(Result("bad", "skeleton", "extend-after-loop", "input is buffered after the read loop", e[-1]))
                    continue
                if isinstance(bk, tuple) and bk[0] == "trim-needle":
                    if H is not True:
                        res.append(Result("bad", "hunt-trim", "trim-to-flag-outside-hunt", "buffered input is skipped to the next flag although the reader is not in hunt mode "
                                          "(octets of a frame in progress are dropped when a call boundary falls there)", e[-1], witness="; ".join(f"{'' if pol else 'not '}{t}" for t, pol, _ in unknown) or "frame is not None"))
                    elif unknown:
                        res.append(Result("ok", "hunt-trim", "trim under extra condition", "hunt-mode trim happens only while hunting"))
                    if seen_loop or early:  # (on an early return every trim made counts as the release of consumed input)
                        trimmed_after = True
                    continue
                if bk == "trim-pos":
                    if seen_loop or early:  # (on an early return every trim made counts as the release of consumed input)
                        trimmed_after = True
                    continue
                if bk == "unknown" and not seen_loop and H is True:
                    continue  # judged by the buffer contract of the role `hunt-mode trim`
                if bk == "unknown" and seen_loop:
                    trimmed_after = True  # judged by the buffer contract of the role `release consumed input`
                    continue
                if bk == "clear" and seen_loop and _loop_consumes_all(m):
                    trimmed_after = True  # nothing is unconsumed after the loop: emptying the buffer releases exactly the consumed input
                    continue
                res.append(Result("bad", "skeleton", f"buffer.{short}", f"read() calls buffer.{short} outside the per-octet step", e[-1]))
                continue
            if e[0] in ("write", "mutate", "callm", "call", "setitem", "memo"):
                what = f"{e[0]} {show_sv(e[1]) if isinstance(e[1], tuple) else e[1]}" + (f".{e[2]}" if e[0] in ("write", "mutate", "memo") else "")
                if e[0] == "memo":
                    what = f"the cached_property {e[2]} of {show_sv(e[1])} is read (its value is frozen at this point, which depends on where the call boundary falls)"
                res.append(Result("bad", "skeleton", "state-change-outside-step", "reader state is changed outside the per-octet step, so the result depends on where read() calls are cut",
                                  e[-1], witness=what))
        if not extended:
            res.append(Result("bad", "chunk-flow", "no-extend", "a path through read() does not buffer the chunk", fn.node.lineno))
        def _sig(q):
            return tuple((e_[0],) + tuple(strip_epoch(x) if isinstance(x, tuple) else x for x in e_[1:-1]) for e_ in q.effects if e_[0] not in ("log", "try"))

        def _known(q):
            return tuple((strip_epoch(g_), pol_) for g_, pol_, _ in q.guards if g_ == ("cmp", "Is", frame0, ("c", None)) or (_cm(g_, PC) and chunk_only(g_, PC)))
        if unknown and len({_sig(q) for q in paths if q.status == "return" and _known(q) == _known(p)}) == 1:
            unknown = []  # whichever way the extra condition goes, read() does the same (it only selects what is logged)
        if unknown and not any(r.kind == "bad" for r in res):
            for t, pol, ln in unknown:
                res.append(Result("undecided", "skeleton", "branch-outside-step", f"control flow of read() outside the per-octet step depends on a condition other than hunt mode / the chunk ({t})", ln))
        if trimmed_after:
            n_trim_ok += 1
        else:
            res.append(Result("bad", "release", "no-trim-on-exit", "read() returns without releasing the consumed prefix of the input buffer (retained memory grows with the bytes fed)", fn.node.lineno,
                              witness="path: " + ("hunting" if H else "in frame")))
    if n_trim_ok == len(paths) and paths:
        res.append(Result("ok", "release", "exit trim", f"all {len(paths)} exit path(s) of read() drop the consumed prefix after the last pop"))
    if not any(r.tag == "hunt-trim" and r.kind == "bad" for r in res):
        res.append(Result("ok", "hunt-trim", "prologue", "trim-to-flag in read() is guarded by `current frame is None`"))
    if not any(r.tag == "skeleton" and r.kind == "bad" for r in res):
        res.append(Result("ok", "skeleton", "prologue/epilogue", "outside the loop read() only buffers the chunk, trims and returns"))
    # in-step: hunt trims only on rows that end in hunt mode; buffer state read only by the loop test
    for sp in m.paths:
        if not m.feasible(sp):
            continue
        if "flag" in sp.post.trims and sp.post.frame != "none" and not sp.lits.get("H"):
            res.append(Result("bad", "hunt-trim", "step-trim-to-flag", "the step skips buffered input to the next flag without entering hunt mode", loc(m, sp), witness=f"[{sp.guard_text()}] => {sp.post.brief()}"))
        def _no_pops(sv):
            # the popped octet itself is not buffer state
            if isinstance(sv, tuple):
                if sv and m.is_popped(sv):
                    return ("popped",)
                return tuple(_no_pops(x) if isinstance(x, tuple) else x for x in sv)
            return sv
        for t, pol, g in sp.unknown:
            if m.mentions(_no_pops(g), m.f0(R.buffer)):
                res.append(Result("bad", "lookahead", "buffer-state-in-step", "the per-octet step looks at how much input is buffered (beyond the loop test): the outcome depends on the chunking",
                                  loc(m, sp), witness=t))
    if not any(r.tag == "lookahead" for r in res):
        res.append(Result("ok", "lookahead", "loop test only", "the amount of buffered data influences control flow only through the loop test"))
    # result list: returned name initialised to [] and only appended to
    rets = [n for n in ast.walk(fn.node) if isinstance(n, ast.Return)]
    named = [r_ for r_ in rets if isinstance(r_.value, ast.Name)]
    if named and all(r_.value.id == named[0].value.id for r_ in named) and all(r_ in named or (isinstance(r_.value, ast.List) and not r_.value.elts) for r_ in rets):
        # (an early `return []` hands out a fresh empty list just like the named one)
        rn = named[0].value.id
        stores = [n for n in ast.walk(fn.node) if isinstance(n, ast.Name) and n.id == rn and isinstance(n.ctx, ast.Store)]
        if len(stores) == 1:
            res.append(Result("ok", "result", rn, "append-only result list created per call and returned"))
        else:
            res.append(Result("bad", "result", rn, "result list is re-assigned inside read()", rets[0].lineno))
    else:
        res.append(Result("undecided", "result", "return", "read() does not return a single local list"))
    # locals live across iterations
    loop = m.loop
    assigned_in_loop = {n.id for s in loop.body for n in ast.walk(s) if isinstance(n, ast.Name) and isinstance(n.ctx, ast.Store)}
    carried = []
    order = list(_eval_order(loop.body))
    for name in assigned_in_loop:
        for kind, n in order:
            if n == name:
                if kind == "load":
                    carried.append(name)
                break
    if isinstance(loop.test, ast.AST):
        for n in ast.walk(loop.test):
            if isinstance(n, ast.Name) and n.id in assigned_in_loop:
                carried.append(n.id)
    if carried:
        res.append(Result("bad", "locals", "carried-local", "a local of read() carries information from one loop iteration to the next (lost at the call boundary)", loop.lineno, witness=",".join(sorted(set(carried)))))
    else:
        res.append(Result("ok", "locals", "loop locals", "no local of read() is live across loop iterations except the result list"))
    return res


def _eval_order(stmts):
    """(kind, name) events of local names in (approximate) evaluation order: loads of an assignment's value before its stores"""
    def expr(e):
        for n in ast.walk(e):
            if isinstance(n, ast.Name):
                yield ("load" if isinstance(n.ctx, ast.Load) else "store", n.id)
    for s in stmts:
        if isinstance(s, ast.Assign):
            yield from expr(s.value)
            for t in s.targets:
                yield from expr(t)
        elif isinstance(s, ast.AnnAssign):
            if s.value is not None:
                yield from expr(s.value)
                yield from expr(s.target)
        elif isinstance(s, ast.AugAssign):
            for n in ast.walk(s.target):
                if isinstance(n, ast.Name):
                    yield ("load", n.id)
            yield from expr(s.value)
            yield from expr(s.target)
        elif isinstance(s, (ast.If, ast.While)):
            yield from expr(s.test)
            yield from _eval_order(s.body)
            yield from _eval_order(s.orelse)
        elif isinstance(s, ast.For):
            yield from expr(s.iter)
            yield from expr(s.target)
            yield from _eval_order(s.body)
        elif isinstance(s, ast.Try):
            yield from _eval_order(s.body)
            for h in s.handlers:
                yield from _eval_order(h.body)
            yield from _eval_order(s.finalbody)
        else:
            yield from expr(s)


# ---------------------------------------------------------------------------------------------- buffer contracts
def _loop_consumes_all(m: HdlcModel):
    """the per-octet loop of read() is `while <buffer has unconsumed input>:` and is left in no other way: after it nothing is unconsumed"""
    lp = getattr(m, "loop", None)
    if not isinstance(lp, ast.While):
        return False
    if any(isinstance(n, (ast.Break, ast.Return)) for s_ in lp.body for n in ast.walk(s_)):
        return False
    t = lp.test
    name = t.attr if isinstance(t, ast.Attribute) else (t.func.attr if isinstance(t, ast.Call) and isinstance(t.func, ast.Attribute) else None)
    recv = t.value if isinstance(t, ast.Attribute) else (t.func.value if isinstance(t, ast.Call) and isinstance(t.func, ast.Attribute) else None)
    if name is None or not (isinstance(recv, ast.Attribute) and isinstance(recv.value, ast.Name) and recv.value.id == "self" and recv.attr == m.roles.buffer):
        return False
    return m.buf.check(name, "avail").ok is True


def buffer_usage(m: HdlcModel):
    """which buffer methods the reader uses, and in which role (from where they are called, not from their names)"""
    R = m.roles
    buf0 = m.f0(R.buffer)
    use = {}
    chunk = m.read_fn.params[0] if m.read_fn.params else None
    for p in Engine(m.M, keep_props=m.keep).run(m.read_fn):
        seen_loop = False
        for e in p.effects:
            if e[0] == "loop":
                seen_loop = True
            if e[0] == "callm" and e[1] == buf0:
                name = e[2].split(".")[-1]
                role = "extend" if e[3] == (("p", chunk),) else ("trim-pos" if seen_loop else "trim-needle")
                use.setdefault(name, set()).add(role)
    for sp in m.paths:
        for e in sp.path.effects:
            if e[0] == "callm" and e[1] == buf0:
                name = e[2].split(".")[-1]
                k = m.bkind(e[2])
                use.setdefault(name, set()).add("pop-octet" if (k in ("pop-octet", "unknown") and not e[3]) else (k[0] if isinstance(k, tuple) else k))
        if sp.path.guards:
            g = sp.path.guards[0][0]

            def walk(sv):
                if isinstance(sv, tuple):
                    if sv and sv[0] == "prop" and sv[1] == buf0:
                        use.setdefault(sv[2], set()).add("avail")
                    if sv and sv[0] == "call" and isinstance(sv[1], str) and len(sv) > 2 and sv[2] and sv[2][0] == buf0 and sv[1].startswith(f"{MOD}.{R.buffer_cls[1]}."):
                        use.setdefault(sv[1].split(".")[-1], set()).add("avail")
                    for x in sv:
                        walk(x)
            if not m.mentions(g, m.f0(R.frame)):
                walk(g)
    return use


BUF_INSTANCE = {"pop-octet": "pop", "trim-pos": "trim-to-position", "trim-needle": "trim-to-flag", "avail": "is_available", "extend": "extend"}
BUF_TEXT = {"pop-octet": "returns the first unconsumed octet and advances the read position by exactly one",
            "trim-pos": "keeps exactly the unconsumed suffix and releases the consumed octets",
            "trim-needle": "continues at the first flag of the unconsumed input (drops everything if there is none) and releases what it skipped",
            "avail": "true exactly when an unconsumed octet exists", "extend": "appends the chunk at the end of the buffer"}


@_memo_on_model
def buffer_contracts(m: HdlcModel):
    """E-SEQ: every buffer method the reader uses satisfies the contract of the role it is used in (abstract evaluation over
    content slices and read position; independent of field names, slicing idiom or branch layout)."""
    res = []
    B = m.buf
    use = buffer_usage(m)
    seen_roles = set()
    for name, roles in sorted(use.items()):
        for role in sorted(roles):
            seen_roles.add(role)
            inst = BUF_INSTANCE.get(role, role)
            v = B.check(name, role, m.flag if role == "trim-needle" else None)
            if v.ok is True and role == "trim-pos" and (v.info or {}).get("not_released"):
                res.append(Result("bad", "release", "trim-keeps-consumed", f"{name}() can return without dropping the consumed octets from the buffer: the retained input is not bounded by the unconsumed tail", v.line or 0))
            if v.ok is True:
                res.append(Result("ok", "buffer", inst, f"{name}(): {BUF_TEXT.get(role, role)}"))
            elif v.ok is False:
                # a method that satisfies a stronger/other adequate contract in that role is fine (trim-to-flag where trim-to-position is needed)
                if role == "trim-pos" and B.check(name, "trim-needle", m.flag).ok is True:
                    res.append(Result("ok", "buffer", inst, f"{name}(): {BUF_TEXT['trim-needle']}"))
                    continue
                # after a loop that runs until nothing is unconsumed, emptying the buffer *is* releasing the consumed octets
                if role == "trim-pos" and B.check(name, "clear").ok is True and _loop_consumes_all(m):
                    res.append(Result("ok", "buffer", inst, f"{name}(): empties the buffer, used where the per-octet loop has consumed everything"))
                    continue
                res.append(Result("bad", "buffer", inst, f"input buffer, used as `{BUF_TEXT.get(role, role)}`: {v.why}", v.line, witness=v.witness))
            else:
                res.append(Result("undecided", "buffer", inst, v.why))
    for role in ("pop-octet", "avail", "extend", "trim-pos", "trim-needle"):
        if role not in seen_roles:
            res.append(Result("undecided", "buffer", BUF_INSTANCE[role], f"the reader does not use a buffer operation in the role `{BUF_TEXT[role]}`"))
    return res
