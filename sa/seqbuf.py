"""E-SEQ: abstract semantics of the readers' input buffers (a bytearray plus a read position).

Every method of the (private) buffer class is run through E-PATH once; its paths are then *evaluated* over an abstract
domain instead of being compared with a source shape:

  integers   linear forms over independent non-negative symbols
               P  read position at entry          J  distance from the search start to the first needle
               R  unconsumed octets (no needle)   T  octets after the needle
  sequences  B0[start:end] (absolute slices of the entry content), the empty sequence, B0 ++ chunk
  find()     decided by a case split: A nothing unconsumed, B unconsumed without needle, C needle at the search
             start, D needle later; in each case every path guard becomes true/false by interval reasoning.

A method satisfies a contract when, in every case, every path whose guards are consistent with the case ends in the
contract's post-state.  Contracts are stated on what the reader can observe -- the value returned and the unconsumed
suffix B0[start+pos:] -- plus `released` (pos' = 0, so consumed octets are no longer stored) where boundedness needs it.
Renamed fields, `del b[:n]` instead of re-slicing, merged/split conditions, early returns and helper methods all
evaluate to the same abstract states.
"""
from __future__ import annotations

import ast
import math
from dataclasses import dataclass

from sa.paths import Engine, Unsupported, show_sv

SELF = ("self0",)
INF = math.inf


# ----------------------------------------------------------------------------------------------- linear forms
class Lin:
    __slots__ = ("c", "t")

    def __init__(self, c=0, t=None):
        self.c = c
        self.t = {k: v for k, v in (t or {}).items() if v != 0}

    def __add__(self, o):
        o = o if isinstance(o, Lin) else Lin(o)
        t = dict(self.t)
        for k, v in o.t.items():
            t[k] = t.get(k, 0) + v
        return Lin(self.c + o.c, t)

    def __neg__(self):
        return Lin(-self.c, {k: -v for k, v in self.t.items()})

    def __sub__(self, o):
        return self + (-(o if isinstance(o, Lin) else Lin(o)))

    def __eq__(self, o):
        return isinstance(o, Lin) and self.c == o.c and self.t == o.t

    def __hash__(self):
        return hash((self.c, tuple(sorted(self.t.items()))))

    def const(self):
        return self.c if not self.t else None

    def bounds(self, rng):
        lo = hi = self.c
        for k, v in self.t.items():
            a, b = rng.get(k, (0, INF))
            lo += v * a if v > 0 else (v * b if b != INF else -INF)
            hi += (v * b if b != INF else INF) if v > 0 else v * a
        return lo, hi

    def __repr__(self):
        s = " + ".join([f"{v}*{k}" if v != 1 else k for k, v in sorted(self.t.items())] + ([str(self.c)] if self.c or not self.t else []))
        return s.replace("+ -", "- ")


def sym(n):
    return Lin(0, {n: 1})


def _subst_pins(v, pins):
    if isinstance(v, Lin):
        c = v.c
        t = {}
        for k, co in v.t.items():
            if k in pins:
                c += co * pins[k]
            else:
                t[k] = co
        return Lin(c, t)
    if isinstance(v, tuple):
        return tuple(_subst_pins(x, pins) for x in v)
    return v


CASES = {
    "A": {"R": (0, 0)},  # nothing unconsumed
    "B": {"R": (1, INF)},  # unconsumed octets, needle absent
    "C": {"J": (0, 0)},  # needle at the search start
    "D": {"J": (1, INF)},  # needle later
}


@dataclass
class Verdict:
    ok: object  # True | False | None (undecided)
    why: str = ""
    witness: str = ""
    line: int = 0
    info: dict = None


class Abs:
    """evaluation of SVs of one method under one case"""

    def __init__(self, data_f, pos_f, case, needle=None, params=(), const=None):
        self.const = const or (lambda name: None)  # class-level constants of the buffer class
        self.D, self.Pf = data_f, pos_f
        self.case = case
        self.rng = dict(CASES[case])
        self.needle = needle
        self.params = params
        self.finds = []  # (needle, abs_from Lin, end Lin)
        P = sym("P")
        self.P = P
        if case in ("A", "B"):
            self.N = P + sym("R")
        else:
            self.N = P + sym("J") + 1 + sym("T")
        self.K = P + sym("J") if case == "D" else P
        if case == "C":
            self.N = P + 1 + sym("T")

    # values: ('lin',Lin) ('seq',start,end) ('empty',) ('elem',Lin) ('none',) ('chunk',) ('cat',seq) ('bool',b) None
    def ev(self, sv):
        if sv is None:
            return None
        t = sv[0]
        if t == "c":
            v = sv[1]
            if isinstance(v, bool):
                return ("bool", v)
            if isinstance(v, int):
                return ("lin", Lin(v))
            if v is None:
                return ("none",)
            if isinstance(v, (bytes, bytearray)) and len(v) == 1:
                return ("lin", Lin(v[0]))
            return None
        if t == "f0" and sv[1] == SELF:
            if sv[2] == self.D:
                return ("seq", Lin(0), self.N)
            if sv[2] == self.Pf:
                return ("lin", self.P)
            c = self.const(sv[2])
            if isinstance(c, int) and not isinstance(c, bool):
                return ("lin", Lin(c))
            return None
        if t == "p":
            return ("chunk", sv[1])
        if t == "len":
            x = self.ev(sv[1])
            return self._len(x)
        if t == "call":
            name = sv[1] if isinstance(sv[1], str) else ""
            args = sv[2]
            if name == "len" and len(args) == 1:
                return self._len(self.ev(args[0]))
            if name in ("bytes", "bytearray"):
                if not args:
                    return ("empty",)
                if len(args) == 1:
                    x = self.ev(args[0])
                    return x if x and x[0] in ("seq", "empty") else None
                return None
            if name.endswith(".rfind") and 2 <= len(args) <= 3:
                # the LAST occurrence: at or after the first one (K), by an amount the case does not determine
                x = self.ev(args[0])
                nd = self.ev(args[1])
                if not x or x[0] not in ("seq", "empty") or not nd or nd[0] != "lin" or nd[1].const() is None:
                    return None
                if x[0] == "empty":
                    return ("lin", Lin(-1))
                frm = Lin(0)
                if len(args) == 3:
                    f = self.ev(args[2])
                    if not f or f[0] != "lin":
                        return None
                    frm = f[1]
                if x[1] + frm != self.P or x[2] != self.N or (self.needle is not None and nd[1].const() != self.needle):
                    return None
                self.finds.append((nd[1].const(), x[1] + frm, x[2]))
                self.rfinds = getattr(self, "rfinds", 0) + 1
                if self.case in ("A", "B"):
                    return ("lin", Lin(-1))
                self.rng["L"] = (0, INF)
                return ("lin", self.K + sym("L") - x[1])
            if name.endswith(".find") and 2 <= len(args) <= 3:
                x = self.ev(args[0])
                nd = self.ev(args[1])
                if not x or x[0] not in ("seq", "empty") or not nd or nd[0] != "lin" or nd[1].const() is None:
                    return None
                if x[0] == "empty":
                    return ("lin", Lin(-1))
                frm = Lin(0)
                if len(args) == 3:
                    f = self.ev(args[2])
                    if not f or f[0] != "lin":
                        return None
                    frm = f[1]
                abs_from = x[1] + frm
                self.finds.append((nd[1].const(), abs_from, x[2]))
                if self.needle is not None and nd[1].const() != self.needle:
                    return None
                # the case split is only meaningful for a search that starts at the unconsumed position and runs to the end
                # (compared under what the path's own conditions have fixed so far, e.g. position = 0 after `if pos:` was false)
                pins_ = self.pinned()
                if _subst_pins(abs_from, pins_) != _subst_pins(self.P, pins_) or _subst_pins(x[2], pins_) != _subst_pins(self.N, pins_):
                    return None
                if self.case in ("A", "B"):
                    return ("lin", Lin(-1))
                return ("lin", self.K - x[1])
            return None
        if t == "op":
            a, b = self.ev(sv[2]), self.ev(sv[3])
            if sv[1] == "Add" and a and b and a[0] == "seq" and b[0] == "chunk":
                return ("cat", a)
            if not a or not b or a[0] != "lin" or b[0] != "lin":
                return None
            if sv[1] == "Add":
                return ("lin", a[1] + b[1])
            if sv[1] == "Sub":
                return ("lin", a[1] - b[1])
            return None
        if t == "slice":
            x = self.ev(sv[1])
            if not x:
                return None
            if x[0] == "empty":
                return x
            if x[0] != "seq":
                return None
            start, end = x[1], x[2]
            for which, part in (("lo", sv[2]), ("hi", sv[3])):
                if part is None:
                    continue
                v = self.ev(part)
                if not v or v[0] != "lin":
                    return None
                off = v[1]
                lo, hi = off.bounds(self.rng)
                if hi < 0:  # negative index: from the end
                    pos = x[2] + off
                elif lo >= 0:
                    pos = x[1] + off
                else:
                    return None
                # clamp knowledge: we need x.start <= pos <= x.end
                l1, _ = (pos - x[1]).bounds(self.rng)
                _, h2 = (pos - x[2]).bounds(self.rng)
                if l1 < 0 or h2 > 0:
                    return None
                if which == "lo":
                    start = pos
                else:
                    end = pos
            l, _ = (end - start).bounds(self.rng)
            if l < 0:
                return None
            return ("seq", start, end)
        if t == "mut":
            x = self.ev(sv[1])
            meth, args = sv[2], sv[3]
            if meth == "clear":
                return ("empty",)
            if meth == "extend" and x and x[0] == "seq" and len(args) == 1 and args[0][0] == "p":
                return ("cat", x)
            if meth == "__delslice__" and x and x[0] in ("seq", "empty"):
                return self.ev(("slice", sv[1], args[1], None)) if args[0] in (None, ("c", 0)) and args[1] is not None else None
            return None
        if t == "sub":
            x, i = self.ev(sv[1]), self.ev(sv[2])
            if not x or x[0] != "seq" or not i or i[0] != "lin":
                return None
            lo, hi = i[1].bounds(self.rng)
            if hi < 0:
                return ("elem", x[2] + i[1])
            if lo >= 0:
                return ("elem", x[1] + i[1])
            return None
        if t == "ite":
            c = self.truth(sv[1])
            if c is None:
                return None
            return self.ev(sv[2] if c else sv[3])
        if t in ("cmp", "not", "bool"):
            b = self.truth(sv)
            return ("bool", b) if b is not None else None
        return None

    def _len(self, x):
        if not x:
            return None
        if x[0] == "empty":
            return ("lin", Lin(0))
        if x[0] == "seq":
            return ("lin", x[2] - x[1])
        if x[0] == "cat":
            return ("lin", x[1][2] - x[1][1] + sym("C"))  # C = length of the chunk
        return None

    def truth(self, sv):
        t = sv[0]
        if t == "c":
            return bool(sv[1])
        if t == "not":
            b = self.truth(sv[1])
            return None if b is None else (not b)
        if t == "bool":
            vals = [self.truth(v) for v in sv[2]]
            if sv[1] == "and":
                if any(v is False for v in vals):
                    return False
                return True if all(v is True for v in vals) else None
            if any(v is True for v in vals):
                return True
            return False if all(v is False for v in vals) else None
        if t == "cmp":
            op = sv[1]
            a, b = self.ev(sv[2]), self.ev(sv[3])
            if not a or not b:
                return None
            if op in ("Is", "IsNot", "Eq", "NotEq") and (a[0] == "none" or b[0] == "none"):
                same = a[0] == b[0]
                if not same and {a[0], b[0]} - {"none", "seq", "empty", "lin", "elem"}:
                    return None
                return same if op in ("Is", "Eq") else (not same)
            if a[0] != "lin" or b[0] != "lin":
                return None
            lo, hi = (a[1] - b[1]).bounds(self.rng)
            res = {"Lt": (hi < 0, lo >= 0), "LtE": (hi <= 0, lo > 0), "Gt": (lo > 0, hi <= 0), "GtE": (lo >= 0, hi < 0),
                   "Eq": (lo == hi == 0, lo > 0 or hi < 0), "NotEq": (lo > 0 or hi < 0, lo == hi == 0)}.get(op)
            if res is None:
                return None
            return True if res[0] else (False if res[1] else None)
        v = self.ev(sv)
        if v is None:
            return None
        if v[0] == "bool":
            return v[1]
        if v[0] in ("seq", "empty"):
            ln = self._len(v)[1]
            lo, hi = ln.bounds(self.rng)
            return True if lo > 0 else (False if hi == 0 else None)
        if v[0] == "none":
            return False
        if v[0] == "lin":
            lo, hi = v[1].bounds(self.rng)
            return False if lo == hi == 0 else (True if lo > 0 or hi < 0 else None)
        return None

    def assume(self, g, pol):
        """a condition the case does not decide holds with polarity `pol` on this path: narrow the range of the symbol it constrains (when it constrains
        exactly one symbol, with coefficient +-1).  -> False when that contradicts the case, True otherwise (also when nothing could be learnt)"""
        t = g[0]
        if t == "not":
            return self.assume(g[1], not pol)
        d, op = None, None
        if t == "cmp" and g[1] in ("Eq", "NotEq", "Lt", "LtE", "Gt", "GtE"):
            a, b = self.ev(g[2]), self.ev(g[3])
            if a and b and a[0] == "lin" and b[0] == "lin":
                d, op = a[1] - b[1], g[1]
        else:
            v = self.ev(g)
            if v and v[0] == "lin":
                d, op = v[1], "NotEq"  # truthiness of a number
            elif v and v[0] in ("seq", "empty"):
                d, op = self._len(v)[1], "NotEq"
        if d is not None:
            d = _subst_pins(d, self.pinned())  # (quantities the case or an earlier condition fixes are constants)
        if d is None or len(d.t) != 1:
            return True
        (k, coef), = d.t.items()
        if coef not in (1, -1):
            return True
        if not pol:
            op = {"Eq": "NotEq", "NotEq": "Eq", "Lt": "GtE", "GtE": "Lt", "Gt": "LtE", "LtE": "Gt"}[op]
        # coef*k + c  op  0   ->   k  op'  bound
        c = d.c
        lo, hi = self.rng.get(k, (0, INF))
        if coef == -1:
            op = {"Lt": "Gt", "Gt": "Lt", "LtE": "GtE", "GtE": "LtE"}.get(op, op)
            bound = c
        else:
            bound = -c
        if op == "Eq":
            lo, hi = max(lo, bound), min(hi, bound)
        elif op == "NotEq":
            if lo == bound:
                lo += 1
            if hi == bound:
                hi -= 1
        elif op == "Lt":
            hi = min(hi, bound - 1)
        elif op == "LtE":
            hi = min(hi, bound)
        elif op == "Gt":
            lo = max(lo, bound + 1)
        elif op == "GtE":
            lo = max(lo, bound)
        if lo > hi:
            return False
        self.rng[k] = (lo, hi)
        return True

    def pinned(self):
        return {k: lo for k, (lo, hi) in self.rng.items() if lo == hi}

    def in_domain(self, g):
        """the condition is a comparison of buffer quantities (its truth may still depend on their size)"""
        t = g[0]
        if t == "not":
            return self.in_domain(g[1])
        if t == "bool":
            return all(self.in_domain(x) for x in g[2])
        if t == "cmp":
            a, b = self.ev(g[2]), self.ev(g[3])
            return bool(a) and bool(b) and a[0] == "lin" and b[0] == "lin"
        v = self.ev(g)
        return v is not None and v[0] in ("lin", "seq", "empty")

    def is_empty(self, v):
        if not v:
            return None
        if v[0] == "empty":
            return True
        if v[0] == "seq":
            lo, hi = (v[2] - v[1]).bounds(self.rng)
            return True if hi == 0 else (False if lo > 0 else None)
        return None


def fmt(v):
    if v is None:
        return "?"
    if v[0] == "seq":
        return f"B[{v[1]}:{v[2]}]"
    if v[0] == "lin":
        return str(v[1])
    if v[0] == "elem":
        return f"B[{v[1]}]"
    return v[0]


# ----------------------------------------------------------------------------------------------- the buffer class
class BufSem:
    def __init__(self, M, cls_key):
        self.M = M
        self.key = cls_key
        self.cls = M.classes.get(cls_key)
        self.err = None
        if self.cls is None:
            self.err = "buffer class not found"
            return
        data_f = [a for a, v in self.cls.field_inits.items() if isinstance(v, ast.Call) and isinstance(v.func, ast.Name) and v.func.id == "bytearray" and not v.args]
        pos_f = [a for a, v in self.cls.field_inits.items() if isinstance(v, ast.Constant) and v.value == 0 and not isinstance(v.value, bool)]
        if len(data_f) != 1 or len(pos_f) != 1 or len(self.cls.field_inits) != 2:
            self.err = f"buffer class is not `one bytearray + one read position` (fields {sorted(self.cls.field_inits)})"
            return
        self.D, self.Pf = data_f[0], pos_f[0]
        self._paths = {}
        self._kind = {}

    def _const(self, name):
        from sa.consteval import ConstEval, NotConstant
        if not hasattr(self, "_ce"):
            self._ce = ConstEval(self.M)
        try:
            return self._ce.class_const(self.key[0], self.key[1], name)
        except NotConstant:
            return None

    def paths(self, name):
        if name not in self._paths:
            fn = self.cls.methods.get(name)
            if fn is None:
                self._paths[name] = (None, None)
            else:
                try:
                    self._paths[name] = (fn, Engine(self.M).run(fn))
                except Unsupported as ex:
                    self._paths[name] = (fn, str(ex))
        return self._paths[name]

    def methods(self):
        return [n for n in self.cls.methods if n != "__init__"]

    # ----------------------------------------------------------------------------------------- contract evaluation
    def _final(self, p, A):
        d = p.store.get(("f", SELF, self.D), ("f0", SELF, self.D))
        q = p.store.get(("f", SELF, self.Pf), ("f0", SELF, self.Pf))
        return A.ev(d), A.ev(q)

    def _other_effects(self, p):
        out = []
        for e in p.effects:
            if e[0] == "write" and e[1] == SELF and e[2] in (self.D, self.Pf):
                continue
            if e[0] == "mutate":
                base = e[1]
                while base[0] in ("mut", "slice"):
                    base = base[1]
                if base == ("f0", SELF, self.D):
                    continue  # the content after the call is taken from the final store, not from the effect list
            if e[0] == "call" and isinstance(e[1], str) and (e[1].endswith(".find") or e[1].endswith(".rfind")):
                continue
            if e[0] in ("log", "try"):
                continue
            out.append(e)
        return out

    def check(self, name, kind, needle=None):
        """does method `name` satisfy contract `kind`?"""
        if self.err:
            return Verdict(None, self.err)
        fn, ps = self.paths(name)
        if fn is None:
            return Verdict(None, f"method {name} not found")
        if isinstance(ps, str):
            return Verdict(None, f"{name}: statement outside the analysed subset ({ps})", line=fn.node.lineno)
        cases = {"extend": "AB", "avail": "AB", "len": "AB", "pop-octet": "B", "trim-pos": "AB", "clear": "AB", "pop-line": "ABCD", "trim-needle": "ABCD"}.get(kind)
        if cases is None:
            return Verdict(None, f"{name}: the method does not fit a buffer contract the checker knows ({kind})", line=fn.node.lineno)
        info = {}
        for case in cases:
            n_cons = 0
            for p in ps:
                A = Abs(self.D, self.Pf, case, needle, fn.params, self._const)
                cons = True
                for g, pol, ln in p.guards:
                    b = A.truth(g)
                    if b is None:
                        if not A.in_domain(g):
                            pins_ = A.pinned()
                            if kind in ("pop-line", "trim-needle") and any(_subst_pins(frm, pins_) != _subst_pins(A.P, pins_) or _subst_pins(end, pins_) != _subst_pins(A.N, pins_) for nd, frm, end in A.finds):
                                return Verdict(False, f"{name}: the search does not run from the first unconsumed octet to the end of the buffer (when {self._case_text(case, needle)})",
                                               witness="; ".join(f"search from {frm} to {end}" for nd, frm, end in A.finds), line=ln)
                            return Verdict(None, f"{name}: condition `{show_sv(g)}` is outside the buffer domain (case {case})", line=ln)
                        if not A.assume(g, pol):
                            cons = False
                            break
                        continue  # a comparison the case does not decide (e.g. position against a constant): both outcomes are possible, each under its own constraint
                    if b != pol:
                        cons = False
                        break
                if not cons:
                    continue
                n_cons += 1
                if p.status == "raise":
                    return Verdict(False, f"{name} raises when {self._case_text(case, needle)}", line=fn.node.lineno)
                extra = self._other_effects(p)
                if extra:
                    return Verdict(False, f"{name} has an effect besides the buffer content and position", witness=str(extra[0][:3]), line=extra[0][-1] if isinstance(extra[0][-1], int) else fn.node.lineno)
                d, q = self._final(p, A)
                r = A.ev(p.ret) if p.ret is not None else ("none",)
                pins = A.pinned()
                if pins:
                    # symbols the path's own conditions fix to one value (`if count:` false -> count = 0) are replaced by it
                    d, q, r = _subst_pins(d, pins), _subst_pins(q, pins), _subst_pins(r, pins)
                    A.P, A.N, A.K = _subst_pins(A.P, pins), _subst_pins(A.N, pins), _subst_pins(A.K, pins)
                    A.finds = [(nd_, _subst_pins(f_, pins), _subst_pins(e_, pins)) for nd_, f_, e_ in A.finds]
                if kind in ("pop-line", "trim-needle") and case in "CD" and getattr(A, "rfinds", 0):
                    return Verdict(False, f"{name}: searches for the last {hex(needle) if needle is not None else 'needle'} instead of the first one: when a later one exists, everything between the two "
                                   f"is skipped (when {self._case_text(case, needle)})", witness=f"content'={fmt(d)} position'={fmt(q)} returns {fmt(r)}", line=fn.node.lineno)
                v = self._post(kind, case, A, d, q, r, needle, info)
                if v is not True:
                    ok, why = v
                    return Verdict(ok, f"{name}: {why} (when {self._case_text(case, needle)})", witness=f"content'={fmt(d)} position'={fmt(q)} returns {fmt(r)}", line=fn.node.lineno)
                for nd, frm, end in A.finds:
                    if kind in ("pop-line", "trim-needle") and (frm != A.P or end != A.N):
                        return Verdict(False, f"{name}: the search does not run from the first unconsumed octet to the end of the buffer", witness=f"search from {frm} to {end}", line=fn.node.lineno)
                    if needle is not None and nd != needle:
                        return Verdict(False, f"{name}: searches for {hex(nd)} instead of {hex(needle)}", line=fn.node.lineno)
                if kind in ("pop-line", "trim-needle") and case in "CD" and not A.finds:
                    return Verdict(False, f"{name}: does not search the buffer", line=fn.node.lineno)
            if n_cons == 0:
                return Verdict(None, f"{name}: no path is consistent with the case `{self._case_text(case, needle)}`", line=fn.node.lineno)
        return Verdict(True, "", info=info)

    def _case_text(self, case, needle):
        nd = hex(needle) if needle is not None else "the needle"
        return {"A": "nothing is unconsumed", "B": f"unconsumed octets exist{'' if needle is None else ' but none is ' + nd}", "C": f"the first unconsumed octet is {nd}",
                "D": f"{nd} occurs after the first unconsumed octet"}[case]

    def _post(self, kind, case, A, d, q, r, needle, info):
        P, N, K = A.P, A.N, A.K

        def unchanged():
            return d == ("seq", Lin(0), N) and q == ("lin", P)

        def U():
            if d and q and d[0] == "seq" and q[0] == "lin":
                return d[1] + q[1], d[2]
            return None, None

        if kind == "extend":
            if d == ("cat", ("seq", Lin(0), N)) and q == ("lin", P):
                return True
            return False, "does not simply append the chunk at the end of the buffer"
        if kind == "avail":
            if r is None or r[0] != "bool":
                return None, "result is not a decidable comparison of position and length"
            want = case == "B"
            if r[1] is not want:
                return False, f"reports {'no ' if want else ''}octet available"
            return True if unchanged() else (False, "changes the buffer")
        if kind == "len":
            if not unchanged():
                return False, "changes the buffer"
            if r == ("lin", N):
                info["len"] = "total"
                return True
            if r == ("lin", N - P):
                info["len"] = "unconsumed"
                return True
            return False, "is neither the stored nor the unconsumed length"
        if kind == "pop-octet":
            u, end = U()
            if r != ("elem", P):
                return False, "does not return the first unconsumed octet"
            if u is None or u != P + 1 or end != N:
                return False, "does not advance the read position by exactly one octet"
            return True
        if kind == "trim-pos":
            if A.is_empty(("seq", P, N)) and A.is_empty(d) and q == ("lin", Lin(0)):
                return True
            if d == ("seq", P, N) and q == ("lin", Lin(0)):
                return True
            u, end = U()
            if u is not None and u == P and end == N:
                # content preserved but nothing released on this path: fine for what the reader sees; boundedness (C19) needs the release
                info.setdefault("not_released", []).append(case)
                return True
            return False, "does not preserve exactly the unconsumed suffix"
        if kind == "clear":
            if A.is_empty(d) and q == ("lin", Lin(0)):
                return True
            return False, "does not empty the buffer and reset the position"
        if kind == "pop-line":
            if case in "AB":
                if r != ("none",):
                    return False, "returns a value although no complete line is buffered"
                u, end = U()
                return True if (u == P and end == N) else (False, "consumes input although no complete line is buffered")
            if r != ("seq", P, K + 1):
                return False, "does not return the unconsumed octets up to and including the first LF"
            u, end = U()
            if u is None or u != K + 1 or end != N:
                return False, "does not advance the read position to just behind the returned line"
            return True
        if kind == "trim-needle":
            if case in "AB":
                if A.is_empty(d) and q == ("lin", Lin(0)):
                    return True
                u, end = U()
                if u is not None and A.is_empty(("seq", u, end)):
                    return False, "keeps octets stored although none of them can start a message"
                return False, "does not drop all input when the start octet is absent"
            if d == ("seq", K, N) and q == ("lin", Lin(0)):
                return True
            u, end = U()
            if u is not None and u == K and end == N:
                return False, "keeps the skipped octets stored"
            return False, "does not continue exactly at the first start octet"
        return None, "unknown contract"

    def kind(self, name, needles=()):
        """the first contract the method satisfies (or 'unknown')"""
        k = (name, tuple(needles))
        if k not in self._kind:
            res = "unknown"
            for kind in ("extend", "avail", "len", "pop-octet", "trim-pos"):
                v = self.check(name, kind)
                if v.ok is True and not (kind == "trim-pos" and len((v.info or {}).get("not_released", [])) >= 2):
                    res = kind  # (a trim that never releases anything is not a trim: e.g. a method that changes nothing)
                    break
            else:
                for nd in needles:
                    for kind in ("pop-line", "trim-needle"):
                        if self.check(name, kind, nd).ok is True:
                            res = (kind, nd)
                            break
                    if res != "unknown":
                        break
                if res == "unknown" and self.check(name, "clear").ok is True:
                    # (a method that searches the content is not a plain clear, even though it empties the buffer when the search fails)
                    fn_, _ = self.paths(name)
                    searches = fn_ is not None and any(isinstance(n_, ast.Attribute) and n_.attr in ("find", "rfind", "index", "rindex", "partition", "split") for n_ in ast.walk(fn_.node))
                    if not searches:
                        res = "clear"
            self._kind[k] = res
        return self._kind[k]
