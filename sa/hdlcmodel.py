"""Per-octet decision table of HdlcFrameReader.read (E-PATH) with role-bound atoms and abstract post-states.

Shared by C01 (R5/R6), C02, C06, C14, C16 and C19.  Private names are discovered from the public API
(DESIGN.md 1.3): constructor parameters, `unescape_next`, `is_in_hunt_mode`, `read`.
"""
from __future__ import annotations

import ast
from dataclasses import dataclass, field

from sa.consteval import ConstEval, NotConstant
from sa.model import Model
from sa.paths import Engine, Path, Unsupported, loop_iterations, show_sv, strip_epoch
from sa.report import ModelViolation, Undecided
from sa.seqbuf import BufSem

MOD = "hdlc"
READER = (MOD, "HdlcFrameReader")
FRAME = (MOD, "HdlcFrame")
SELF = ("self0",)
FLAG, ESC = 0x7E, 0x7D


@dataclass
class Roles:
    frame: str = None
    pending: str = None
    buffer: str = None
    raw: str = None
    stuffing: str = None
    abort: str = None
    buffer_cls: tuple = None
    pop: str = None  # qualified name of the buffer's pop method


@dataclass
class Post:
    pops: int = 0
    frame: str = "same"  # same | fresh | none | other
    appends: list = field(default_factory=list)  # (target, value) target in entry|fresh ; value tuple
    pending: object = None  # None (untouched) | 'set' | 'clear' | ('other', text)
    raw_ops: list = field(default_factory=list)
    emitted: list = field(default_factory=list)
    trims: list = field(default_factory=list)  # 'pos' | 'flag'
    other: list = field(default_factory=list)
    seq: list = field(default_factory=list)  # ordered tags

    def key(self):
        return (self.pops, self.frame, tuple(self.appends), self.pending, tuple(self.raw_ops), tuple(self.emitted), tuple(self.trims), tuple(self.other))

    def brief(self):
        b = [f"frame'={self.frame}"]
        if self.appends:
            b.append("append " + ",".join(f"{t}<-{fmt_val(v)}" for t, v in self.appends))
        if self.pending is not None:
            b.append(f"pending'={self.pending}")
        if self.raw_ops:
            b.append("raw:" + ",".join(o if isinstance(o, str) else f"append({fmt_val(o[1])})" for o in self.raw_ops))
        if self.emitted:
            b.append("emit " + ",".join(self.emitted))
        if self.trims:
            b.append("trim " + ",".join(self.trims))
        if self.other:
            b.append("other " + ";".join(self.other))
        if self.pops != 1:
            b.append(f"pops={self.pops}")
        return " ".join(b)


def fmt_val(v):
    if v[0] == "popped":
        return "octet"
    if v[0] == "popped^":
        return f"octet^{hex(v[1])}"
    if v[0] == "const":
        return hex(v[1])
    return str(v[1])


@dataclass
class StepPath:
    lits: dict
    unknown: list
    post: Post
    path: Path
    m_thresholds: dict = field(default_factory=dict)  # atom name -> max admitted length

    def guard_text(self):
        t = [(a if v else "!" + a) for a, v in self.lits.items()]
        t += [("" if pol else "!") + "?" + txt for txt, pol, _ in self.unknown]
        return " & ".join(t)


class HdlcModel:
    _CACHE = {}

    def __new__(cls, src):
        """one model per source set (the checks and the clauses they import from each other all read the same model)"""
        ent = cls._CACHE.get(id(src))
        if ent is not None and ent[0] is src:
            if isinstance(ent[1], Exception):
                raise ent[1]
            return ent[1]
        obj = super().__new__(cls)
        try:
            obj._build(src)
        except Exception as ex:
            from sa.report import ModelViolation, Undecided
            if isinstance(ex, (ModelViolation, Undecided)):
                cls._CACHE[id(src)] = (src, ex)
            raise
        cls._CACHE[id(src)] = (src, obj)
        return obj

    def __init__(self, src):
        pass

    def _build(self, src):
        self.src = src
        self.M = Model(src)
        self.ce = ConstEval(self.M)
        M = self.M
        if READER not in M.classes or FRAME not in M.classes:
            raise Undecided("anchor vanished: hdlc.HdlcFrameReader / hdlc.HdlcFrame")
        self.reader = M.classes[READER]
        for n in ("read", "__init__"):
            if n not in self.reader.methods:
                raise Undecided(f"anchor vanished: HdlcFrameReader.{n}")
        self.read_fn = self.reader.methods["read"]
        self.file = src.file(MOD)
        self.flag = self._const("FLAG_SEQUENCE", FLAG)
        self.esc = self._const("CONTROL_ESCAPE", ESC)
        try:
            self.maxlen = self.ce.class_const(FRAME[0], FRAME[1], "MAX_FRAME_LENGTH")
        except NotConstant:
            self.maxlen = 2047
        self.keep = {"is_expected_length", "header_check_sequence", "is_good_ffc", "header"}
        self.roles = self._bind_roles()
        self.buf = BufSem(M, self.roles.buffer_cls)
        if self.buf.err:
            raise Undecided(f"HDLC input buffer: {self.buf.err}")
        self.engine = Engine(M, keep_props=self.keep, inline_depth=10)
        self.loop, raw_paths = self._loop_paths()
        self.paths = [self._classify(p) for p in raw_paths]
        self.paths = [p for p in self.paths if p is not None]
        if self.__dict__.get("unresolved"):
            raise Undecided("the per-octet step of HdlcFrameReader.read calls code the step model cannot resolve: " + "; ".join(sorted(set(self.unresolved))[:3]))
        try:
            self.resolve_frame_predicates()
        except Exception:  # noqa - the refinement is optional: without it complaints under unknown frame predicates stay undecided
            pass

    # ------------------------------------------------------------------ roles
    def _const(self, name, expect):
        try:
            v = self.ce.class_const(READER[0], READER[1], name)
        except NotConstant:
            raise Undecided(f"public constant HdlcFrameReader.{name} not found")
        return v

    def _bind_roles(self):
        M, c = self.M, self.reader
        r = Roles()
        init = c.methods["__init__"]
        # the two mode flags: the fields that hold the constructor's arguments (final store of __init__, E-PATH: aliases and temporaries resolved)
        try:
            ips = [p for p in Engine(M).run(init) if p.status in ("run", "return")]
        except Unsupported as ex:
            raise Undecided(f"HdlcFrameReader.__init__ uses a statement outside the analysed subset: {ex}")

        def mentions(sv, x):
            return sv == x or (isinstance(sv, tuple) and any(mentions(y, x) for y in sv if isinstance(y, tuple)))
        for role, par in (("stuffing", "use_octet_stuffing"), ("abort", "use_abort_sequence")):
            if par not in init.params:
                raise Undecided(f"HdlcFrameReader.__init__ has no parameter {par}")
            exact, mixed = set(), []
            for p in ips:
                for k, v in p.store.items():
                    if k[0] == "f" and k[1] == SELF:
                        v0 = strip_epoch(v)
                        if v0 == ("p", par):
                            exact.add(k[2])
                        elif v0[0] in ("bool", "not", "ite", "cmp") and mentions(v0, ("p", par)):
                            mixed.append((k[2], v0))
            if len(exact) == 1:
                setattr(r, role, exact.pop())
            elif not exact and mixed:
                raise ModelViolation(f"hdlc.HdlcFrameReader.__init__", f"mode-flag:{par}", f"the reader's {role} mode is not the constructor argument {par} but `{show_sv(mixed[0][1])[:80]}` "
                                     f"(stored in self.{mixed[0][0]}): for some argument combinations the reader frames the stream in the other mode", self.src.file("hdlc") if hasattr(self, "src") else "han/hdlc.py",
                                     init.node.lineno)
        p = c.methods.get("unescape_next")
        if p is not None:
            for n in ast.walk(p.node):
                if isinstance(n, ast.Return) and isinstance(n.value, ast.Attribute) and isinstance(n.value.value, ast.Name) and n.value.value.id == "self":
                    r.pending = n.value.attr
        for a, t in c.field_types.items():
            if t == FRAME:
                r.frame = a
        # buffer: the sub-object that receives the chunk parameter in read() (resolved through local aliases)
        chunk = self.read_fn.params[0] if self.read_fn.params else None
        try:
            for p in Engine(M, keep_props=self.keep, inline_depth=10).run(self.read_fn):
                for e in p.effects:
                    if e[0] == "callm" and e[3] == (("p", chunk),) and e[1][0] == "f0" and e[1][1] == SELF:
                        r.buffer = e[1][2]
        except Unsupported as ex:
            raise Undecided(f"HdlcFrameReader.read uses a statement outside the analysed subset: {ex}")
        if r.buffer:
            r.buffer_cls = c.field_types.get(r.buffer)
        raws = [a for a, v in c.field_inits.items() if isinstance(v, ast.Call) and isinstance(v.func, ast.Name) and v.func.id == "bytearray" and a != r.buffer]
        if len(raws) == 1:
            r.raw = raws[0]
        for nm_, l1_, l2_ in self.M.shared_mutable_state(READER):
            raise ModelViolation("hdlc.HdlcFrameReader", f"shared-class-state:{nm_}", f"`{nm_}` is a mutable container created once in the class body and modified in place through self.{nm_} "
                                 f"(line {l2_}) without ever being bound per instance: all reader objects share it, so what one reader has received changes what another one does", self.src.file("hdlc"), l1_)
        missing = [k for k in ("frame", "pending", "buffer", "stuffing", "abort", "buffer_cls") if getattr(r, k) is None]
        if missing:
            raise Undecided(f"cannot bind reader roles {missing} from the public API")
        # initial state: a new reader is hunting (no frame in progress, no pending escape): octets that arrive before the first flag belong to no frame
        for p in ips:
            fv = strip_epoch(p.store.get(("f", SELF, r.frame), ("c", None)))
            pv = strip_epoch(p.store.get(("f", SELF, r.pending), ("c", False)))
            if fv[0] == "new" or (fv[0] == "c" and fv[1] is not None):

                raise ModelViolation("hdlc.HdlcFrameReader.__init__", "initial-state", "a new reader starts with a frame in progress instead of hunting for a flag: octets received before the first flag "
                                     "are collected and can be returned as a frame that no flag opened", self.src.file("hdlc"), init.node.lineno, witness=f"self.{r.frame} = {show_sv(fv)[:60]}")
            if pv == ("c", True):

                raise ModelViolation("hdlc.HdlcFrameReader.__init__", "initial-state", "a new reader starts with a pending escape", self.src.file("hdlc"), init.node.lineno)
        return r

    # ------------------------------------------------------------------ paths
    def _loop_paths(self):
        fn = self.read_fn
        it = loop_iterations(self.engine, fn)
        if it is None:
            raise Undecided("HdlcFrameReader.read is not `prologue; one loop over the buffered octets; epilogue`")
        node, conts, leaving, _ = it
        from sa.paths import _iter_sentinel
        if isinstance(node, (ast.For, ast.AsyncFor)) and _iter_sentinel(node) is None:
            raise Undecided("HdlcFrameReader.read iterates over a sequence / generator instead of popping the buffered octets one by one: the per-octet step model does not apply")
        self.leaving = leaving
        for p in leaving:
            # the only way out of the loop is its test: a path that pops an octet and then leaves is not a per-octet step
            if any(e[0] == "callm" and e[1] == self.f0(self.roles.buffer) and self.bkind(e[2]) == "pop-octet" for e in p.effects):
                raise Undecided(f"read-loop path leaves the loop with status {p.status} after consuming input")
        return node, conts

    def bkind(self, callee):
        """semantic kind of a buffer method (E-SEQ), independent of its name"""
        return self.buf.kind(callee.split(".")[-1], (self.flag,))

    def f0(self, name):
        return ("f0", SELF, name)

    def is_popped(self, sv):
        return sv[0] == "call" and len(sv) > 2 and sv[2] and sv[2][0] == self.f0(self.roles.buffer) and isinstance(sv[1], str) and sv[1].startswith(f"{MOD}.{self.roles.buffer_cls[1]}.") \
            and self.bkind(sv[1]) not in ("avail", "len")

    def mentions(self, sv, target):
        if sv == target:
            return True
        if isinstance(sv, tuple):
            return any(self.mentions(x, target) for x in sv if isinstance(x, tuple))
        return False

    def _atom(self, g, pol, sp):
        """classify one guard literal -> (name, value) | None for unknown"""
        R = self.roles
        frame0 = self.f0(R.frame)
        if g == self.f0(R.stuffing):
            return "U", pol
        if g == self.f0(R.abort):
            return "A1", pol
        if g == self.f0(R.pending):
            return "P", pol
        if g[0] == "prop" and g[2] == "is_expected_length" and g[1] == frame0:
            return ("L" if (len(g) < 4 or not g[3]) else f"L#{g[3]}"), pol
        if g[0] == "cmp":
            op, a, b = g[1], g[2], g[3]
            if op == "Eq" and self.is_popped(a) and b[0] == "c":
                if b[1] == self.flag:
                    return "F", pol
                if b[1] == self.esc:
                    return "C", pol
                return None
            if op == "Is" and a == frame0 and b == ("c", None):
                return "H", pol
            if op == "Is" and b == ("c", None) and a[0] == "prop" and a[2] == "header_check_sequence" and a[1][0] == "prop" and a[1][2] == "header" and a[1][1] == frame0:
                return ("S" if not (len(a) > 3 and a[3]) else f"S#{a[3]}"), pol
            if a[0] == "len" and b[0] == "c" and isinstance(b[1], int):
                tgt, ver = a[1], (a[2] if len(a) > 2 else 0)
                if tgt == frame0:
                    if op == "Eq" and b[1] == 0 and not ver:
                        return "E", pol
                    if op in ("LtE", "Lt"):
                        thr = b[1] if op == "LtE" else b[1] - 1
                        # the length guard: evaluated after an append in this step, or against the frame's maximum-length constant
                        if ver or thr in (self.maxlen, self.maxlen - 1, self.maxlen + 1):
                            name = "M0" if not ver else "M1"
                            sp.m_thresholds[name] = thr
                            return name, (not pol)
                if tgt == self.f0(R.raw) or (tgt[0] == "mut" and self.mentions(tgt, self.f0(R.raw))):
                    if op in ("LtE", "Lt") and not self._raw_mutated(tgt):
                        thr = b[1] if op == "LtE" else b[1] - 1
                        if thr == 1:
                            return "A2", (not pol)
            if op == "Eq" and b == ("c", self.esc) and self._is_last_raw(a):
                return "A3", pol
        return None

    def _raw_mutated(self, sv):
        return sv[0] == "mut"

    def _is_last_raw(self, a):
        raw0 = self.f0(self.roles.raw)
        if a[0] == "sub":
            base, idx = a[1], a[2]
            if base == raw0 and idx == ("c", -1):
                return True
            if base[0] == "slice" and base[1] == raw0 and base[2] == ("c", -1) and base[3] is None and idx == ("c", 0):
                return True
        return False

    def _value(self, v):
        if self.is_popped(v):
            return ("popped",)
        if v[0] == "sub" and v[1][0] == "c" and isinstance(v[1][1], (bytes, tuple)) and len(v[1][1]) == 256 and self.is_popped(v[2]) and all(isinstance(x_, int) for x_ in v[1][1]):
            # a 256-entry constant table indexed by the received octet: the function it tabulates
            tab = v[1][1]
            k = tab[0]
            if all(tab[i] == i ^ k for i in range(256)):
                return ("popped",) if k == 0 else ("popped^", k)
        if v[0] == "op" and v[1] == "BitXor":
            a, b = v[2], v[3]
            if self.is_popped(b) and a[0] == "c":
                a, b = b, a
            if self.is_popped(a) and b[0] == "c":
                return ("popped^", b[1])
        if v[0] == "c" and isinstance(v[1], int):
            return ("const", v[1])
        return ("other", show_sv(v))

    def _classify(self, p: Path):
        R = self.roles
        sp = StepPath({}, [], Post(), p)
        frame0 = self.f0(R.frame)
        first = True
        for g, pol, ln in p.guards:
            if first:
                first = False
                # the loop test: "an unconsumed octet exists" -- any expression over the buffer only
                if self.mentions(g, self.f0(R.buffer)) and not self.mentions(g, frame0):
                    continue
            a = self._atom(g, pol, sp)
            if a is None:
                sp.unknown.append((show_sv(g), pol, g))
            else:
                name, val = a
                if name in sp.lits and sp.lits[name] != val:
                    return None  # contradictory
                sp.lits[name] = val
        post = sp.post
        cur_frame = "entry"
        for e in p.effects:
            k = e[0]
            if k == "log" or k == "loop" or k == "try":
                continue
            if k == "callm":
                recv, callee, args = e[1], e[2], e[3]
                if recv == self.f0(R.buffer):
                    short = callee.split(".")[-1]
                    bk = self.bkind(callee)
                    if bk == "trim-pos":
                        post.trims.append("pos"); post.seq.append("trim")
                    elif isinstance(bk, tuple) and bk[0] == "trim-needle":
                        post.trims.append("flag"); post.seq.append("trim")
                    elif bk == "pop-octet" or (bk == "unknown" and not args):
                        post.pops += 1; post.seq.append("pop")
                        if R.pop is None:
                            R.pop = callee
                    else:
                        post.other.append(f"buffer.{short}")
                    continue
                if callee.endswith(".HdlcFrame.append"):
                    tgt = "entry" if recv == frame0 else "fresh" if recv[0] == "new" else "other"
                    post.appends.append((tgt, self._value(args[0]) if args else ("other", "?")))
                    post.seq.append("append")
                    continue
                post.other.append(f"call {callee.split('.', 1)[-1]}")
                continue
            if k == "write":
                base, attr, val = e[1], e[2], e[3]
                if base == SELF and attr == R.frame:
                    cur_frame = "fresh" if val[0] == "new" and val[1] == FRAME else "none" if val == ("c", None) else "other"
                    post.frame = cur_frame
                    post.seq.append("frame:" + cur_frame)
                    continue
                if base == SELF and attr == R.pending:
                    post.pending = "set" if val == ("c", True) else "clear" if val == ("c", False) else ("other", show_sv(val))
                    post.seq.append("pending")
                    continue
                post.other.append(f"write {show_sv(base)}.{attr}")
                continue
            if k == "mutate":
                recv, meth, args = e[1], e[2], e[3]
                base = recv
                while base[0] == "mut":
                    base = base[1]
                if base == self.f0(R.raw):
                    if meth == "clear":
                        post.raw_ops.append("clear")
                    elif meth == "append" and args:
                        post.raw_ops.append(("append", self._value(args[0])))
                    else:
                        post.raw_ops.append(("other", meth))
                    post.seq.append("raw")
                    continue
                if base[0] in ("g", "l", "p") or (base[0] == "new" and False):
                    if meth == "append" and args:
                        v = args[0]
                        post.emitted.append("entry" if v == frame0 else "fresh" if v[0] == "new" else "other")
                        post.seq.append("emit")
                        continue
                post.other.append(f"{show_sv(base)}.{meth}")
                continue
            if k in ("call", "calldyn"):
                # a call the path engine could not resolve to repository code (a callable held in a field / local, an unknown function): the step's
                # effect is unknown, which is a gap of the model and not a property of the code
                self.__dict__.setdefault("unresolved", []).append(f"{k} {show_sv(e[1])[:60]} (line {e[-1] if isinstance(e[-1], int) else '?'})")
                post.other.append(f"call {e[1]}")
                continue
            if k == "raise":
                post.other.append(f"raise {e[1]}")
                continue
            if k == "setitem":
                post.other.append("setitem")
                continue
            post.other.append(str(k))
        return sp

    # ------------------------------------------------------------------ queries
    def feasible(self, sp: StepPath):
        L = sp.lits
        if L.get("M0"):
            return False  # invariant: frame length at entry <= maximum (established by the M1 guard after every append)
        if L.get("E") and L.get("S") is False:
            return False  # an empty frame has no header check sequence
        if L.get("__infeasible__"):
            return False  # its conditions on the current frame hold in no frame world
        return True

    def resolve_frame_predicates(self):
        """paths guarded by a condition the literal table does not know but which reads only the current frame: the condition is evaluated on the frame worlds
        (frames built through the public API, every prefix, symbolic octets) together with the literal S = `header check sequence not yet available`.
        Where the path's conditions fix S, the path gets that literal (the condition was another spelling of the too-short test, or implies it); where they
        leave S open the path keeps its unknown conditions, marked `free` (they are independent of S: the row table treats them as free); where the worlds
        cannot be evaluated nothing changes (complaints on such paths are undecided)."""
        from sa.hdlcworlds import frame_predicate_values, sv_to_expr
        frame0 = self.f0(self.roles.frame)
        for sp in self.paths:
            if not sp.unknown or sp.lits.get("H") is not False:
                continue
            exprs = []
            for _, pol, g in sp.unknown:
                e = sv_to_expr(strip_epoch(g), frame0)
                if e is None:
                    exprs = None
                    break
                exprs.append((e, pol))
            if not exprs:
                continue
            # the frame literals of the row table: too short (S), expected length (L), empty (E)
            TARGETS = {"S": "frame.header.header_check_sequence is None", "L": "frame.is_expected_length", "E": "len(frame) == 0"}
            fixed, open_, failed = {}, [], False
            for lit, target in TARGETS.items():
                if lit in sp.lits:
                    continue
                vals = frame_predicate_values(self.M, exprs, target)
                if vals is None:
                    failed = True
                    break
                if not vals:
                    sp.lits["__infeasible__"] = True
                    break
                if len(vals) == 1:
                    fixed[lit] = next(iter(vals))
                else:
                    open_.append(lit)
            if failed or sp.lits.get("__infeasible__"):
                continue
            for lit, v in fixed.items():
                sp.lits[lit] = v
            if fixed:
                sp.unknown = []  # the conditions are (or imply) literals of the table
            else:
                self.__dict__.setdefault("free_paths", set()).add(id(sp))  # independent of every frame literal the table knows: free

    def matching(self, guard_alts):
        """paths consistent with any alternative (dict atom->bool) of the guard"""
        out = []
        for sp in self.paths:
            if not self.feasible(sp):
                continue
            for alt in guard_alts:
                if all(sp.lits.get(a, v) == v for a, v in alt.items()):
                    out.append(sp)
                    break
        return out


def loc(model, sp):
    ln = sp.path.guards[-1][2] if sp.path.guards else model.read_fn.node.lineno
    return ln
