"""E-PATH: path enumeration with a symbolic store, guards, effects, inlining.

Symbolic values (SV) are nested tuples:
  ('c', value)                      constant
  ('f0', base_sv, attr)             initial value of a field at entry   (base: ('self',) or another SV)
  ('p', name)                       parameter of the entry function
  ('new', (mod, cls), site)         fresh object
  ('op', opname, a, b) / ('un', opname, a) / ('cmp', op, a, b) / ('bool', 'and'|'or', (..))
  ('call', name, (args..), site)    result of an unresolved / external call
  ('sub', a, idx) / ('slice', a, lo, hi)
  ('mut', prev_sv, method, (args))  container after a mutating call
  ('prop', base_sv, name)           non-trivial property kept opaque (public atom)
  ('len', sv)
  ('iter', sv, site)                loop variable over sv
"""
from __future__ import annotations
import ast, itertools
from dataclasses import dataclass, field
from sa.model import Model, Func

MUTATORS = {"append", "extend", "clear", "pop", "insert", "remove", "update", "add", "discard", "put_nowait", "set", "cancel", "close", "set_result", "set_exception"}
PURE_BUILTINS = {"len", "bytes", "bytearray", "int", "float", "str", "bool", "isinstance", "hasattr", "abs", "round", "max", "min", "list", "cast", "range", "next", "hash", "all", "any"}
LOG_PREFIX = "_LOGGER."


@dataclass
class Path:
    store: dict = field(default_factory=dict)  # key -> SV ; keys: ('l', name) | ('f', base_sv, attr)
    guards: list = field(default_factory=list)  # (SV, polarity, lineno)
    effects: list = field(default_factory=list)  # (kind, ..., lineno)
    status: str = "run"  # run|return|raise|break|continue
    ret: object = None

    def clone(self):
        return Path(dict(self.store), list(self.guards), list(self.effects), self.status, self.ret)


class Unsupported(Exception):
    pass


def exc_covered(cls, handler_stack):
    """is an exception of class `cls` caught by one of the enclosing try statements (tuple of tuples of handler class names)?"""
    import builtins
    cls = cls.split(".")[-1].split("(")[0]
    for names in handler_stack:
        for h in names:
            h = h.split(".")[-1]
            if h in ("Exception", "BaseException") or h == cls:
                return True
            a, b = getattr(builtins, cls, None), getattr(builtins, h, None)
            if isinstance(a, type) and isinstance(b, type) and issubclass(a, b):
                return True
    return False


class NeedFork(Exception):
    """a call in expression position whose callee has several paths: the enclosing statement executes it first and re-evaluates"""

    def __init__(self, node, fr):
        super().__init__(ast.unparse(node))
        self.node, self.fr = node, fr


def consistent_intervals(guards):
    """integer-interval consistency of literals `term <op> const` over the same term (len terms are >= 0)"""
    dom = {}
    for g, pol, _ in guards:
        if g[0] != "cmp" or g[3][0] != "c" or not isinstance(g[3][1], int) or isinstance(g[3][1], bool):
            continue
        op, t, k = g[1], g[2], g[3][1]
        if op not in ("Eq", "Lt", "LtE"):
            continue
        lo, hi, excl = dom.get(t, (0 if t[0] == "len" else None, None, set()))
        if op == "Eq":
            if pol:
                lo = k if lo is None else max(lo, k)
                hi = k if hi is None else min(hi, k)
            else:
                excl = excl | {k}
        elif op == "LtE":
            if pol:
                hi = k if hi is None else min(hi, k)
            else:
                lo = k + 1 if lo is None else max(lo, k + 1)
        elif op == "Lt":
            if pol:
                hi = k - 1 if hi is None else min(hi, k - 1)
            else:
                lo = k if lo is None else max(lo, k)
        dom[t] = (lo, hi, excl)
        if lo is not None and hi is not None:
            if lo > hi or all(v in excl for v in range(lo, min(hi, lo + 8) + 1)) and hi - lo < 8:
                return False
    return True


class Engine:
    def __init__(self, model: Model, inline_depth=4, split_bool=True, keep_props=(), inline_subobjects=False, no_inline=(), split_ifexp=False, fork_props=False, inline_async=False, track_exc=False):
        self.track_exc = track_exc  # record potential exception sites (index, decode, int/float of text, next, None misuse) as ('xsite', ..) effects
        self.inline_async = inline_async  # `await self.helper()` of the root object is executed inline (its own awaits havoc the fields)
        self.fork_props = fork_props  # properties with several paths are executed (forked) instead of staying opaque ('prop', ..) atoms
        self.split_ifexp = split_ifexp  # `x = a if c else b` / `return a if c else b` become two paths instead of an ('ite',..) value
        self.no_inline = set(no_inline)  # method names kept as opaque `call` effects (e.g. abstract hooks)
        self.M = model
        self.depth = inline_depth
        self.split_bool = split_bool
        self.keep_props = set(keep_props)  # property names never inlined (public atoms)
        self.inline_sub = inline_subobjects
        self.loops = []  # recorded loops: (fn, node, frame)
        self.loop_entries = []  # (fn, node, frame, path state on reaching the loop)
        self.site = itertools.count()

    def ctor_escapes(self, ck):
        """exception classes that can leave the constructor of repository class ck (its own handlers applied): [(cls, what, line, fn qual, guards)]"""
        memo = self.__dict__.setdefault("_ctor_memo", {})
        if ck not in memo:
            memo[ck] = []
            init = self.M.find_method(ck, "__init__")
            if init is not None:
                E2 = Engine(self.M, inline_depth=self.depth, keep_props=self.keep_props, inline_subobjects=self.inline_sub, split_ifexp=self.split_ifexp, fork_props=self.fork_props, track_exc=True)
                try:
                    ps = E2.run(init)
                except (Unsupported, NeedFork):
                    memo[ck] = [("Exception", "constructor outside the analysed subset", init.node.lineno, init.qual, ())]
                    return memo[ck]
                seen = set()
                for q in ps:
                    for e in q.effects:
                        if e[0] == "xsite" and not exc_covered(e[1], e[5]):
                            k = (e[1], e[2], e[4])
                            if k not in seen:
                                seen.add(k)
                                memo[ck].append((e[1], e[2], e[4], e[7], tuple(q.guards[:e[6]]), e[3]))
                        if e[0] == "raise" and len(e) > 3 and not exc_covered(str(e[1]), e[3]):
                            k = (e[1], "raise", e[2])
                            if k not in seen:
                                seen.add(k)
                                memo[ck].append((str(e[1]).split("(")[0], "raise", e[2], e[4], tuple(q.guards), None))
        return memo[ck]

    def xsite(self, p, cls, what, detail, lineno, fr):
        if self.track_exc:
            p.effects.append(("xsite", cls, what, detail, lineno, p.store.get(("handlers",), ()), len(p.guards), fr["fn"].qual))

    # ------------------------------------------------------------ expression evaluation
    def ev(self, e, p: Path, fr):
        """evaluate expression to SV; may inline calls (side-effect free ones only here)."""
        M = self.M
        fn = fr["fn"]
        if isinstance(e, ast.Constant):
            return ("c", e.value)
        if isinstance(e, ast.Name):
            if e.id == "self":
                return fr["self"]
            k = ("l", fr["id"], e.id)
            if k in p.store:
                return p.store[k]
            if e.id in fr["params"]:
                return fr["params"][e.id]
            cv = M.const_value(e, fn)
            if cv is not None:
                return ("c", cv)
            ck = M.lookup_class_name(fn.mod, e.id)
            if ck:
                return ("class", ck)
            return ("g", e.id)
        if isinstance(e, ast.Attribute):
            cv = M.const_value(e, fn) if isinstance(e.value, ast.Name) and e.value.id != "self" else None
            if cv is not None:
                return ("c", cv)
            base = self.ev(e.value, p, fr)
            return self.attr(base, e.attr, p, fr, e)
        if isinstance(e, ast.UnaryOp):
            v = self.ev(e.operand, p, fr)
            if isinstance(e.op, ast.Not):
                return self.neg(v)
            if isinstance(e.op, ast.USub) and v[0] == "c":
                return ("c", -v[1])
            return ("un", type(e.op).__name__, v)
        if isinstance(e, ast.BinOp):
            a, b = self.ev(e.left, p, fr), self.ev(e.right, p, fr)
            if self.track_exc and (a == ("c", None) or b == ("c", None)):
                self.xsite(p, "TypeError", "none-arithmetic", ("op", type(e.op).__name__, a, b), e.lineno, fr)
            return ("op", type(e.op).__name__, a, b)
        if isinstance(e, ast.BoolOp):
            vals = tuple(self.ev(v, p, fr) for v in e.values)
            return ("bool", "and" if isinstance(e.op, ast.And) else "or", vals)
        if isinstance(e, ast.Compare):
            if len(e.ops) != 1:
                # a < b < c  ==  (a < b) and (b < c)
                vals = []
                left = e.left
                for op, right in zip(e.ops, e.comparators):
                    vals.append(self.cmp(type(op).__name__, self.ev(left, p, fr), self.ev(right, p, fr)))
                    left = right
                return ("bool", "and", tuple(vals))
            a, b = self.ev(e.left, p, fr), self.ev(e.comparators[0], p, fr)
            if self.track_exc and isinstance(e.ops[0], (ast.Lt, ast.LtE, ast.Gt, ast.GtE)) and (a == ("c", None) or b == ("c", None)):
                self.xsite(p, "TypeError", "none-ordering", ("cmp", type(e.ops[0]).__name__, a, b), e.lineno, fr)
            return self.cmp(type(e.ops[0]).__name__, a, b)
        if isinstance(e, ast.Subscript):
            a = self.ev(e.value, p, fr)
            if self.track_exc and a == ("c", None):
                self.xsite(p, "TypeError", "none-subscript", a, e.lineno, fr)
            if isinstance(e.slice, ast.Slice):
                lo = self.ev(e.slice.lower, p, fr) if e.slice.lower else None
                hi = self.ev(e.slice.upper, p, fr) if e.slice.upper else None
                # (None is a legal slice bound: x[None:n] is x[:n])
                lo = None if lo == ("c", None) else lo
                hi = None if hi == ("c", None) else hi
                return ("slice", a, lo, hi)
            idx = self.ev(e.slice, p, fr)
            if self.track_exc and isinstance(e.ctx, ast.Load):
                self.xsite(p, "IndexError", "index", ("sub", a, idx), e.lineno, fr)
            return ("sub", a, idx)
        if isinstance(e, ast.IfExp):
            t_ = self.ev(e.test, p, fr)
            if isinstance(t_, tuple) and len(t_) == 2 and t_[0] == "c" and isinstance(t_[1], (bool, int, str, bytes, type(None))):
                # the test is a constant on this path (e.g. a flag local set a few statements earlier): the conditional expression is the chosen arm
                return self.ev(e.body if t_[1] else e.orelse, p, fr)
            return ("ite", t_, self.ev(e.body, p, fr), self.ev(e.orelse, p, fr))
        if isinstance(e, ast.Call):
            return self.call_expr(e, p, fr)
        if isinstance(e, (ast.Tuple, ast.List)):
            return ("tuple", tuple(self.ev(x, p, fr) for x in e.elts))
        if isinstance(e, ast.JoinedStr):
            parts = []
            for v in e.values:
                if isinstance(v, ast.Constant):
                    parts.append(("lit", str(v.value)))
                elif isinstance(v, ast.FormattedValue):
                    spec = ast.unparse(v.format_spec) if v.format_spec is not None else ""
                    sv_ = self.ev(v.value, p, fr)
                    if self.track_exc:
                        # formatting a repository object runs its __str__ / __repr__ here and now (unlike a lazy logging argument)
                        ck_ = self.sv_class(sv_, fr)
                        m_ = self.M.find_method(ck_, "__repr__" if v.conversion == 114 else "__str__") if ck_ else None
                        if m_ is not None and fr["depth"] < self.depth:
                            self.inline_pure(m_, sv_, [], p, fr)
                    parts.append(("val", sv_, v.conversion, spec))
            return ("fstr", tuple(parts))
        if isinstance(e, ast.Await):
            v = self.ev(e.value, p, fr)
            ep = p.store.get(("epoch",), 0)
            self.havoc_fields(p)
            return ("await", v, ep)
        if isinstance(e, ast.Starred):
            return ("star", self.ev(e.value, p, fr))
        if isinstance(e, ast.NamedExpr) and isinstance(e.target, ast.Name):
            v = self.ev(e.value, p, fr)
            p.store[("l", fr["id"], e.target.id)] = v
            return v
        if isinstance(e, (ast.GeneratorExp, ast.ListComp)) and len(e.generators) == 1 and not e.generators[0].ifs and isinstance(e.generators[0].target, ast.Name):
            it = self.ev(e.generators[0].iter, p, fr)
            elems = None
            if it[0] == "tuple":
                elems = list(it[1])
            elif it[0] == "call" and isinstance(it[1], str) and it[1].endswith(".group") or (it[0] == "call" and it[1] == ".group"):
                nargs = [a for a in it[2] if a[0] == "c" and isinstance(a[1], str)]
                if len(nargs) >= 2:
                    elems = [("sub", it, ("c", i)) for i in range(len(nargs))]
            if elems is not None:
                k = ("l", fr["id"], e.generators[0].target.id)
                old = p.store.get(k)
                out = []
                for el in elems:
                    p.store[k] = el
                    out.append(self.ev(e.elt, p, fr))
                if old is None:
                    p.store.pop(k, None)
                else:
                    p.store[k] = old
                return ("tuple", tuple(out))
            # generator over an unknown iterable: keep element expression and iterable symbolically
            k = ("l", fr["id"], e.generators[0].target.id)
            old = p.store.get(k)
            p.store[k] = ("iter", it, e.lineno)
            try:
                elt = self.ev(e.elt, p, fr)
            finally:
                if old is None:
                    p.store.pop(k, None)
                else:
                    p.store[k] = old
            return ("gen", elt, it)
        if isinstance(e, (ast.GeneratorExp, ast.ListComp, ast.SetComp, ast.DictComp)) and self.track_exc:
            # comprehension of another form: its value stays opaque, but the iterables, filters and element expressions are evaluated once with the
            # targets bound to `some element`, so that the potential exception sites inside them are seen
            saved = {}
            try:
                for g in e.generators:
                    it = self.ev(g.iter, p, fr)
                    names = [g.target] if isinstance(g.target, ast.Name) else [t for t in getattr(g.target, "elts", []) if isinstance(t, ast.Name)]
                    for i, t in enumerate(names):
                        k = ("l", fr["id"], t.id)
                        saved.setdefault(k, p.store.get(k))
                        p.store[k] = ("iter", it, e.lineno) if isinstance(g.target, ast.Name) else ("sub", ("iter", it, e.lineno), ("c", i))
                    for c in g.ifs:
                        self.ev(c, p, fr)
                for sub in ([e.key, e.value] if isinstance(e, ast.DictComp) else [e.elt]):
                    self.ev(sub, p, fr)
            except Unsupported:
                pass
            finally:
                for k, old in saved.items():
                    if old is None:
                        p.store.pop(k, None)
                    else:
                        p.store[k] = old
            return ("opaque", ast.unparse(e))
        if isinstance(e, (ast.GeneratorExp, ast.ListComp, ast.Lambda, ast.Dict)):
            return ("opaque", ast.unparse(e))
        if isinstance(e, (ast.Yield, ast.YieldFrom)):
            # generator bodies are analysed like any other body: the yielded value is an effect, the value sent in is unknown
            v = self.ev(e.value, p, fr) if e.value is not None else ("c", None)
            p.effects.append(("yield" if isinstance(e, ast.Yield) else "yield-from", v, e.lineno))
            return ("sent", e.lineno)
        raise Unsupported(type(e).__name__)

    def neg(self, v):
        if v[0] == "not":
            return v[1]
        if v[0] == "c":
            return ("c", not v[1])
        if v[0] == "cmp":
            inv = {"Is": "IsNot", "IsNot": "Is", "Eq": "NotEq", "NotEq": "Eq", "Lt": "GtE", "GtE": "Lt", "Gt": "LtE", "LtE": "Gt", "In": "NotIn", "NotIn": "In"}
            return ("cmp", inv[v[1]], v[2], v[3])
        return ("not", v)

    def cmp(self, op, a, b):
        # canonical: constant on the right; Gt/GtE turned to Lt/LtE by swapping
        if a[0] == "c" and b[0] != "c" and op not in ("In", "NotIn"):
            sw = {"Lt": "Gt", "Gt": "Lt", "LtE": "GtE", "GtE": "LtE"}
            a, b, op = b, a, sw.get(op, op)
        if a[0] == "c" and b[0] == "c":
            try:
                x, y = a[1], b[1]
                r = {"Eq": lambda: x == y, "NotEq": lambda: x != y, "Is": lambda: x is y or (type(x) is type(y) and x == y and isinstance(x, (int, str, bool))),
                     "IsNot": lambda: not (x is y or (type(x) is type(y) and x == y and isinstance(x, (int, str, bool)))),
                     "Lt": lambda: x < y, "Gt": lambda: x > y, "LtE": lambda: x <= y, "GtE": lambda: x >= y,
                     "In": lambda: x in y, "NotIn": lambda: x not in y}[op]()
                return ("c", r)
            except Exception:
                pass
        # two different members of the same class (enum constants) are different values
        if op in ("Is", "IsNot", "Eq", "NotEq") and a[0] == "f0" and b[0] == "f0" and len(a) == 3 and len(b) == 3 and a[1] == b[1] and a[1][0] == "class":
            return ("c", (a[2] == b[2]) == (op in ("Is", "Eq")))
        # identity of fresh objects vs None
        if op in ("Is", "IsNot") and b == ("c", None) and a[0] == "new":
            return ("c", op == "IsNot")
        return ("cmp", op, a, b)

    def attr(self, base, name, p, fr, node=None):
        M = self.M
        k = ("f", base, name)
        if k in p.store:
            return p.store[k]
        ck = self.sv_class(base, fr)
        if ck:
            m = M.find_method(ck, name)
            if m and m.kind == "property":
                if m.qual in M.memo_reach:
                    # cached_property (or a property that reads one): the read may fill the per-instance cache -- a state change of the object, at the point of the read
                    p.effects.append(("memo", base, name, getattr(node, "lineno", 0) if node is not None else 0))
                if name in self.keep_props or fr["depth"] >= self.depth or (base != ("self0",) and not self.inline_sub):
                    return ("prop", base, name, self.version(base, p))
                r = self.inline_pure(m, base, [], p, fr)
                if r is None and self.fork_props and node is not None:
                    key = ("memo", id(node))
                    if key in p.store:
                        return p.store[key]
                    raise NeedFork(node, fr)
                return r if r is not None else ("prop", base, name)
            if m:
                return ("bound", base, m.qual)
        if ck and name not in self.instance_stored():
            # a class-level constant read through an instance -- only when no instance ever assigns that attribute (a dataclass / NamedTuple
            # default is the initial value of an instance field, not a constant)
            cv, ck2 = M.find_const(ck, name)
            if cv is not None:
                v = M.const_value(cv, fr["fn"])
                if v is not None:
                    return ("c", v)
        if base[0] == "class":
            cv, _ = M.find_const(base[1], name)
            if cv is not None:
                v = M.const_value(cv, fr["fn"])
                if v is not None:
                    return ("c", v)
        ep = p.store.get(("epoch",), 0)
        return ("f0", base, name, ep) if ep else ("f0", base, name)

    def instance_stored(self):
        """attribute names that are assigned on some object anywhere in the repository"""
        memo = self.M.__dict__.get("_stored_attrs")
        if memo is None:
            memo = set()
            for tree in self.M.mods.values():
                for n in ast.walk(tree):
                    if isinstance(n, ast.Attribute) and isinstance(n.ctx, (ast.Store, ast.Del)) and not (isinstance(n.value, ast.Name) and n.value.id[:1].isupper()):
                        memo.add(n.attr)
            self.M.__dict__["_stored_attrs"] = memo
        return memo

    def havoc_fields(self, p):
        """an await point: other coroutines may run, so every field read afterwards is a new value"""
        for k in [k for k in p.store if k[0] == "f"]:
            del p.store[k]
        p.store[("epoch",)] = p.store.get(("epoch",), 0) + 1

    def version(self, base, p):
        v = 1000 * p.store.get(("epoch",), 0)
        b = base
        while b and b != ("self0",):
            v += p.store.get(("ver", b), 0)
            b = b[1] if b[0] in ("f0", "prop") else None
        return v

    def sv_class(self, sv, fr):
        M = self.M
        if sv == ("self0",):
            return fr["root_cls"]
        if sv[0] == "new":
            return sv[1]
        if sv[0] == "typed":
            return sv[1]
        if sv[0] in ("f0",):
            bc = self.sv_class(sv[1], fr)
            if bc:
                return M.field_type(bc, sv[2])
        if sv[0] == "prop":
            bc = self.sv_class(sv[1], fr)
            if bc:
                m = M.find_method(bc, sv[2])
                if m and m.node.returns is not None:
                    return M.ann_class(m.mod, m.node.returns)
        if sv[0] == "cast":
            return sv[1]
        return None

    def fresh_len_zero(self, ck):
        """a freshly constructed object of class ck has len() == 0 (its __len__ is len(self.f) and f starts as an empty container)"""
        M = self.M
        m = M.find_method(ck, "__len__")
        if not m:
            return False
        body = [s for s in m.node.body if not (isinstance(s, ast.Expr) and isinstance(s.value, ast.Constant))]
        if len(body) != 1 or not isinstance(body[0], ast.Return):
            return False
        e = body[0].value
        if not (isinstance(e, ast.Call) and isinstance(e.func, ast.Name) and e.func.id == "len" and len(e.args) == 1):
            return False
        a = e.args[0]
        if not (isinstance(a, ast.Attribute) and isinstance(a.value, ast.Name) and a.value.id == "self"):
            return False
        for k in M.mro(ck):
            init = M.classes[k].field_inits.get(a.attr)
            if init is not None:
                if isinstance(init, ast.Call) and isinstance(init.func, ast.Name) and init.func.id in ("bytearray", "list", "bytes", "dict", "set") and not init.args:
                    return True
                if isinstance(init, (ast.List, ast.Dict, ast.Tuple)) and not getattr(init, "elts", getattr(init, "keys", [])):
                    return True
                return False
        return False

    def inline_pure(self, m: Func, recv, args, p, fr):
        """inline a property/method whose body is straight-line `return expr` (after docstring)."""
        body = [s for s in m.node.body if not (isinstance(s, ast.Expr) and isinstance(s.value, ast.Constant))]
        if len(body) == 1 and isinstance(body[0], ast.Return) and body[0].value is not None:
            nfr = self.frame(m, recv, args, fr)
            return self.ev(body[0].value, p, nfr)
        return None

    def _is_boolish(self, e, fr):
        """expression whose value is a bool (so `a and b` returns exactly True/False)"""
        if isinstance(e, ast.Compare) or (isinstance(e, ast.UnaryOp) and isinstance(e.op, ast.Not)):
            return True
        if isinstance(e, ast.Constant):
            return isinstance(e.value, bool)
        if isinstance(e, ast.BoolOp):
            return all(self._is_boolish(v, fr) for v in e.values)
        callee = None
        if isinstance(e, ast.Call) and isinstance(e.func, ast.Attribute) and isinstance(e.func.value, ast.Name) and e.func.value.id == "self" and fr["fn"].cls:
            callee = self.M.find_method((fr["fn"].mod, fr["fn"].cls), e.func.attr)
        elif isinstance(e, ast.Call) and isinstance(e.func, ast.Name):
            callee = self.M.funcs.get(f"{fr['fn'].mod}.{e.func.id}")
            if e.func.id in ("isinstance", "hasattr", "bool", "callable"):
                return True
        elif isinstance(e, ast.Attribute) and isinstance(e.value, ast.Name) and e.value.id == "self" and fr["fn"].cls:
            m = self.M.find_method((fr["fn"].mod, fr["fn"].cls), e.attr)
            callee = m if m is not None and m.kind == "property" else None
        if callee is not None and callee.node.returns is not None:
            return ast.unparse(callee.node.returns) == "bool"
        return False

    def _call_xsites(self, e, args, p, fr):
        f = e.func
        src = ast.unparse(f)
        if src.startswith(LOG_PREFIX):
            return
        pos = [a for a in args if not (isinstance(a, tuple) and a and a[0] == "kw")]
        kws = {a[1]: a[2] for a in args if isinstance(a, tuple) and a and a[0] == "kw"}
        if isinstance(f, ast.Attribute) and f.attr == "decode":
            errs = kws.get("errors", pos[1] if len(pos) > 1 else None)
            enc = pos[0] if pos else kws.get("encoding", ("c", "utf-8"))
            lenient = errs is not None and errs[0] == "c" and errs[1] in ("replace", "ignore", "backslashreplace", "surrogateescape")
            latin = enc[0] == "c" and str(enc[1]).lower().replace("-", "").replace("_", "") in ("latin1", "iso88591")
            if not lenient and not latin:
                self.xsite(p, "UnicodeDecodeError", "decode", self.ev(f.value, p.clone(), fr), e.lineno, fr)
        if isinstance(f, ast.Attribute) and self.ev(f.value, p.clone(), fr) == ("c", None):
            self.xsite(p, "AttributeError", "none-attribute", ("c", None), e.lineno, fr)
        if isinstance(f, ast.Name) and f.id == "int" and (len(pos) > 1 or "base" in kws):
            self.xsite(p, "ValueError", "int()", pos[0] if pos else None, e.lineno, fr)
        if isinstance(f, ast.Name) and f.id == "float" and pos and pos[0][0] != "c":
            self.xsite(p, "ValueError", "float()", pos[0], e.lineno, fr)
        if isinstance(f, ast.Name) and f.id == "next" and len(pos) == 1:
            self.xsite(p, "StopIteration", "next()", pos[0], e.lineno, fr)
        if isinstance(f, ast.Name) and f.id == "len" and pos and pos[0] == ("c", None):
            self.xsite(p, "TypeError", "none-len", pos[0], e.lineno, fr)
        if isinstance(f, ast.Name) and f.id in ("max", "min") and len(pos) == 1 and "default" not in kws and pos[0][0] not in ("tuple",):
            # max()/min() of one iterable raises ValueError when it is empty; recorded as an index-0 site so that a dominating length guard discharges it
            self.xsite(p, "ValueError", "extremum", ("sub", pos[0], ("c", 0)), e.lineno, fr)

    def pattern_sv(self, pat, subj, p, fr):
        """(condition SV, captured names) of a structural pattern; None for patterns outside the subset"""
        if isinstance(pat, ast.MatchAs):
            if pat.pattern is None:
                return ("c", True), ({pat.name: subj} if pat.name else {})
            c, b = self.pattern_sv(pat.pattern, subj, p, fr)
            if c is None:
                return None, {}
            if pat.name:
                b = dict(b)
                b[pat.name] = subj
            return c, b
        if isinstance(pat, ast.MatchValue):
            return self.cmp("Eq", subj, self.ev(pat.value, p, fr)), {}
        if isinstance(pat, ast.MatchSingleton):
            return self.cmp("Is", subj, ("c", pat.value)), {}
        if isinstance(pat, ast.MatchClass) and not pat.patterns and not pat.kwd_attrs:
            return ("call", "isinstance", (subj, ("g", ast.unparse(pat.cls))), pat.lineno), {}
        if isinstance(pat, ast.MatchOr):
            cs = [self.pattern_sv(x, subj, p, fr)[0] for x in pat.patterns]
            if any(c is None for c in cs):
                return None, {}
            return ("bool", "or", tuple(cs)), {}
        return None, {}

    def fork_or_memo(self, e, callee, p, fr):
        key = ("memo", id(e))
        if key in p.store:
            return p.store[key]
        if fr["depth"] >= self.depth or isinstance(callee.node, ast.AsyncFunctionDef):
            return ("call", callee.qual, tuple(self.ev(a, p, fr) for a in e.args), e.lineno)
        raise NeedFork(e, fr)

    def fork(self, nf, snap, cont):
        """execute the call of `nf` at statement level on the pre-statement snapshot, then continue each result with the call's value memoised"""
        out = []
        key = ("memo", id(nf.node))
        for q, r in self.exec_call(nf.node, snap, nf.fr):
            if q.status != "run":
                out.append(q)
                continue
            q.store[key] = r
            res = cont(q)
            for x in res:
                x.store.pop(key, None)
            out.extend(res)
        return out

    def cond(self, test, p, fr):
        """(paths where test is true, paths where it is false) with Python's short-circuit order; calls inside are executed with all their paths"""
        if isinstance(test, ast.BoolOp) and self.split_bool:
            is_and = isinstance(test.op, ast.And)
            go, done = [p], []
            for v in test.values:
                nxt = []
                for q in go:
                    if q.status != "run":
                        done.append(q)
                        continue
                    t, f = self.cond(v, q, fr)
                    if is_and:
                        nxt += t
                        done += f
                    else:
                        nxt += f
                        done += t
                go = nxt
            return (go, done) if is_and else (done, go)
        if isinstance(test, ast.UnaryOp) and isinstance(test.op, ast.Not):
            t, f = self.cond(test.operand, p, fr)
            return f, t
        snap = p.clone()
        try:
            sv = self.ev(test, p, fr)
        except NeedFork as nf:
            T, F = [], []
            key = ("memo", id(nf.node))
            for q, r in self.exec_call(nf.node, snap, nf.fr):
                if q.status != "run":
                    T.append(q)
                    continue
                q.store[key] = r
                t, f = self.cond(test, q, fr)
                for x in t + f:
                    x.store.pop(key, None)
                T += t
                F += f
            return T, F
        # truth of an object of a repository class that defines __len__ (and no __bool__) is `len(x) != 0` -- once the path knows it is not None
        if isinstance(sv, tuple) and sv and sv[0] in ("f0", "l", "new", "p"):
            ck = self.sv_class(sv, fr)
            if ck and self.M.find_method(ck, "__len__") is not None and self.M.find_method(ck, "__bool__") is None:
                s0 = strip_epoch(sv)
                known = sv[0] == "new" or any(strip_epoch(g) == ("cmp", "Is", s0, ("c", None)) and not pol for g, pol, _ in p.guards)
                if known:
                    return self.branch(("cmp", "NotEq", self.len_of(sv, p, fr), ("c", 0)), p, getattr(test, "lineno", 0))
        return self.branch(sv, p, getattr(test, "lineno", 0))

    def len_of(self, x, p, fr):
        M = self.M
        ck = self.sv_class(x, fr)
        if ck and (self.inline_sub or x == ("self0",)):
            m = M.find_method(ck, "__len__")
            if m:
                r = self.inline_pure(m, x, [], p, fr)
                if r is not None:
                    return r
        if x[0] == "new" and self.version(x, p) == 0 and self.fresh_len_zero(x[1]):
            return ("c", 0)
        return ("len", x, self.version(x, p))

    def frame(self, fn: Func, recv, args, parent):
        params = dict(zip(fn.params, args))
        return {"fn": fn, "self": recv, "params": params, "id": next(self.site), "depth": (parent["depth"] + 1 if parent else 0),
                "root_cls": parent["root_cls"] if parent else ((fn.mod, fn.cls) if fn.cls else None)}

    def call_expr(self, e: ast.Call, p, fr):
        """calls in expression position: inline pure single-return callees, otherwise opaque result.
        (statement-level calls with effects go through exec_call)"""
        M = self.M
        f = e.func
        args = [self.ev(a, p, fr) for a in e.args] + [("kw", k.arg, self.ev(k.value, p, fr)) for k in e.keywords if k.arg]
        if self.track_exc:
            self._call_xsites(e, args, p, fr)
        if isinstance(f, ast.Name):
            if f.id == "cast" and len(args) == 2:
                return args[1]
            if f.id == "len" and len(args) == 1:
                return self.len_of(args[0], p, fr)
            ck = M.lookup_class_name(fr["fn"].mod, f.id)
            if ck:
                if self.track_exc:
                    for esc in self.ctor_escapes(ck):
                        self.xsite(p, esc[0], "ctor:" + esc[1], ("ctor", ck, esc[2], esc[3], esc[4], esc[5], tuple(args)), e.lineno, fr)
                return ("new", ck, e.lineno, tuple(args))
            if f.id in ("tuple", "list") and len(args) == 1 and args[0][0] == "tuple":
                return args[0]
            lk = ("l", fr["id"], f.id)
            if lk in p.store and f.id not in PURE_BUILTINS:
                r = ("calldyn", p.store[lk], tuple(args), e.lineno)
                p.effects.append(r)
                return r
            if f.id in PURE_BUILTINS:
                return ("call", f.id, tuple(args), e.lineno)
            callee = M.funcs.get(f"{fr['fn'].mod}.{f.id}")
            if callee is None:
                imp = M.imports.get(fr["fn"].mod, {}).get(f.id)
                if imp and imp[0] == "symbol":
                    callee = M.funcs.get(f"{imp[1]}.{imp[2]}")
            if callee is not None and fr["depth"] < self.depth:
                r = self.inline_pure(callee, None, args, p, fr)
                if r is not None:
                    return r
                return self.fork_or_memo(e, callee, p, fr)
        if isinstance(f, ast.Attribute):
            base = self.ev(f.value, p, fr)
            ck = self.sv_class(base, fr)
            if ck:
                m = M.find_method(ck, f.attr)
                if m and fr["depth"] < self.depth:
                    r = self.inline_pure(m, base if m.kind != "static" else None, args, p, fr)
                    if r is not None:
                        return r
                if m and m.name not in self.no_inline and (self.inline_sub or base == ("self0",) or m.kind == "static"):
                    return self.fork_or_memo(e, m, p, fr)
                if m:
                    if m.kind not in ("static", "property") and base != ("self0",):
                        # method of a sub-object called inside an expression: same atomic effect as at statement level
                        p.effects.append(("callm", base, m.qual, tuple(args), e.lineno))
                        p.store[("ver", base)] = p.store.get(("ver", base), 0) + 1
                    return ("call", m.qual, (base,) + tuple(args), e.lineno)
            return ("call", "." + f.attr, (base,) + tuple(args), e.lineno)
        return ("call", ast.unparse(f), tuple(args), e.lineno)

    # ------------------------------------------------------------ statements
    def run(self, fn: Func, recv=("self0",), args=None, keep=()):
        fr = self.frame(fn, recv, args or [("p", a) for a in fn.params], None)
        if args is None:
            fr["params"] = {a: ("p", a) for a in fn.params}
        return self.block(fn.node.body, [Path()], fr)

    def block(self, stmts, paths, fr):
        for s in stmts:
            out = []
            for p in paths:
                if p.status != "run":
                    out.append(p)
                else:
                    out.extend(self.stmt(s, p, fr))
            paths = out
        return paths

    def assign(self, target, val, p, fr, lineno):
        if isinstance(target, ast.Name):
            p.store[("l", fr["id"], target.id)] = val
        elif isinstance(target, ast.Attribute):
            base = self.ev(target.value, p, fr)
            p.store[("f", base, target.attr)] = val
            p.effects.append(("write", base, target.attr, val, lineno))
        elif isinstance(target, ast.Tuple):
            for i, t in enumerate(target.elts):
                self.assign(t, ("sub", val, ("c", i)), p, fr, lineno)
        elif isinstance(target, ast.Subscript):
            base = self.ev(target.value, p, fr)
            p.effects.append(("setitem", base, self.ev(target.slice, p, fr), val, lineno))
        else:
            raise Unsupported("assign target")

    def branch(self, test_sv, p, lineno):
        """yield (path, outcome) for a test, splitting and/or if configured; prunes constants/contradictions."""
        res = []

        def rec(sv, q, want):
            # returns list of paths on which sv evaluates to `want`
            if sv[0] == "c":
                return [q] if bool(sv[1]) == want else []
            if sv[0] == "not":
                return rec(sv[1], q, not want)
            if sv[0] == "bool" and self.split_bool:
                kind, vals = sv[1], sv[2]
                if (kind == "and") == want:
                    # all must be `want`
                    qs = [q]
                    for v in vals:
                        qs = [r for x in qs for r in rec(v, x.clone(), want)]
                    return qs
                # at least one differs: first i-1 are (not want-breaking), i-th breaks
                out = []
                prefix = [q]
                for v in vals:
                    for x in prefix:
                        out.extend(rec(v, x.clone(), want))
                    prefix = [r for x in prefix for r in rec(v, x.clone(), not want)]
                return out
            atom, pol = (sv, want)
            if sv[0] == "cmp" and sv[1] in ("NotEq", "IsNot", "GtE", "Gt", "NotIn"):
                atom, pol = self.neg(sv), not want
            for g, gp, _ in q.guards:
                if g == atom:
                    return [q] if gp == pol else []
            if not consistent_intervals(q.guards + [(atom, pol, lineno)]):
                return []
            q.guards.append((atom, pol, lineno))
            return [q]

        return rec(test_sv, p.clone(), True), rec(test_sv, p.clone(), False)

    def stmt(self, s, p: Path, fr):
        snap = p.clone()
        try:
            return self._stmt(s, p, fr)
        except NeedFork as nf:
            return self.fork(nf, snap, lambda q: self.stmt(s, q, fr))

    def _stmt(self, s, p: Path, fr):
        M = self.M
        if self.split_ifexp and isinstance(s, (ast.Return, ast.Assign, ast.AnnAssign)) and isinstance(s.value, ast.IfExp):
            t, f = self.cond(s.value.test, p, fr)
            out = []
            for qs, val in ((t, s.value.body), (f, s.value.orelse)):
                if isinstance(s, ast.Return):
                    s2 = ast.Return(value=val)
                elif isinstance(s, ast.Assign):
                    s2 = ast.Assign(targets=s.targets, value=val)
                else:
                    s2 = ast.AnnAssign(target=s.target, annotation=s.annotation, value=val, simple=s.simple)
                ast.copy_location(s2, s)
                for q in qs:
                    out.extend(self.stmt(s2, q, fr) if q.status == "run" else [q])
            return out
        if self.split_ifexp and isinstance(s, (ast.Return, ast.Assign)) and isinstance(s.value, ast.BoolOp) and all(self._is_boolish(v, fr) for v in s.value.values):
            t, f = self.cond(s.value, p, fr)
            out = []
            for qs, val in ((t, True), (f, False)):
                s2 = ast.Return(value=ast.Constant(value=val)) if isinstance(s, ast.Return) else ast.Assign(targets=s.targets, value=ast.Constant(value=val))
                ast.copy_location(s2, s)
                ast.fix_missing_locations(s2)
                for q in qs:
                    out.extend(self.stmt(s2, q, fr) if q.status == "run" else [q])
            return out
        if isinstance(s, ast.Expr):
            if isinstance(s.value, ast.Constant):
                return [p]
            if isinstance(s.value, ast.Call):
                return [q for q, _ in self.exec_call(s.value, p, fr)]
            if isinstance(s.value, ast.Await):
                inner = s.value.value
                if self.inline_async and isinstance(inner, ast.Call) and isinstance(inner.func, ast.Attribute) and isinstance(inner.func.value, ast.Name) and inner.func.value.id == "self" \
                        and fr["self"] == ("self0",) and fr["root_cls"] and fr["depth"] < self.depth:
                    m = M.find_method(fr["root_cls"], inner.func.attr)
                    if m is not None and isinstance(m.node, ast.AsyncFunctionDef) and m.name not in self.no_inline and m.kind == "method":
                        args = [self.ev(a, p, fr) for a in inner.args]
                        nfr = self.frame(m, fr["self"], args, fr)
                        out = []
                        for q in self.block(m.node.body, [p], nfr):
                            if q.status == "return":
                                q.status, q.ret = "run", None
                            out.append(q)
                        return out
                p.effects.append(("await", self.ev(s.value.value, p, fr), s.lineno, p.store.get(("epoch",), 0)))
                self.havoc_fields(p)
                return [p]
            v_ = self.ev(s.value, p, fr)
            if getattr(self, "record_eval", False):
                # a bare expression statement (e.g. a property read for its side effect / its exception): remembered for rules that ask whether it was evaluated
                p.effects.append(("eval", v_, s.lineno))
            return [p]
        if isinstance(s, ast.Assign):
            if isinstance(s.value, ast.Call):
                out = []
                for q, r in self.exec_call(s.value, p, fr):
                    if q.status == "run":
                        for t in s.targets:
                            self.assign(t, r, q, fr, s.lineno)
                    out.append(q)
                return out
            v = self.ev(s.value, p, fr)
            for t in s.targets:
                self.assign(t, v, p, fr, s.lineno)
            return [p]
        if isinstance(s, ast.AnnAssign):
            if s.value is not None:
                return self.stmt(ast.copy_location(ast.Assign(targets=[s.target], value=s.value), s), p, fr)
            return [p]
        if isinstance(s, ast.AugAssign):
            cur = self.ev(s.target, p, fr)
            v = ("op", type(s.op).__name__, cur, self.ev(s.value, p, fr))
            tgt = s.target
            self.assign(tgt, v, p, fr, s.lineno)
            return [p]
        if isinstance(s, ast.Return):
            if s.value is not None and isinstance(s.value, ast.Call):
                out = []
                for q, r in self.exec_call(s.value, p, fr):
                    if q.status == "run":
                        q.ret, q.status = r, "return"
                    out.append(q)
                return out
            p.ret = self.ev(s.value, p, fr) if s.value is not None else ("c", None)
            p.status = "return"
            return [p]
        if isinstance(s, ast.Raise):
            exc_txt = ast.unparse(s.exc) if s.exc else "reraise"
            if isinstance(s.exc, ast.Call) and isinstance(s.exc.func, ast.Name):
                # raise helper(...): a repository function whose body is `return SomeError(...)` stands for that exception
                hf = self.M.funcs.get(f"{fr['fn'].mod}.{s.exc.func.id}")
                if hf is not None:
                    hb = [x for x in hf.node.body if not (isinstance(x, ast.Expr) and isinstance(x.value, ast.Constant))]
                    if len(hb) == 1 and isinstance(hb[0], ast.Return) and isinstance(hb[0].value, ast.Call):
                        exc_txt = ast.unparse(hb[0].value)
            p.effects.append(("raise", exc_txt, s.lineno, p.store.get(("handlers",), ()), fr["fn"].qual))
            p.status = "raise"
            return [p]
        if isinstance(s, ast.Pass):
            return [p]
        if isinstance(s, ast.Delete):
            for t in s.targets:
                if isinstance(t, ast.Subscript):
                    base = self.ev(t.value, p, fr)
                    key = self.sv_key(t.value, p, fr)
                    if isinstance(t.slice, ast.Slice):
                        meth = "__delslice__"
                        dargs = (self.ev(t.slice.lower, p, fr) if t.slice.lower else None, self.ev(t.slice.upper, p, fr) if t.slice.upper else None)
                    else:
                        meth, dargs = "__delitem__", (self.ev(t.slice, p, fr),)
                    newv = ("mut", base, meth, dargs, s.lineno)
                    if key:
                        p.store[key] = newv
                    p.effects.append(("mutate", base, meth, dargs, s.lineno))
                elif isinstance(t, ast.Name):
                    p.store.pop(("l", fr["id"], t.id), None)
                else:
                    raise Unsupported("del target")
            return [p]
        if isinstance(s, ast.Break):
            p.status = "break"
            return [p]
        if isinstance(s, ast.Continue):
            p.status = "continue"
            return [p]
        if isinstance(s, ast.Assert):
            t, f = self.cond(s.test, p, fr)
            if not self.track_exc:
                # outside the exception analysis an assert is an assumption of the code's author: execution continues where it holds
                # (whether it can fire is decided, or left undecided, by the exception-escape rules of C14)
                return t + [q for q in f if q.status != "run"]
            certain = not [q for q in t if q.status == "run"]  # no continuation on which the assertion holds: on this path it fails for sure
            for q in f:
                if q.status == "run":
                    q.effects.append(("raise", "AssertionError", s.lineno, q.store.get(("handlers",), ()), fr["fn"].qual, "certain" if certain else "possible"))
                    q.status = "raise"
            return t + f
        if isinstance(s, ast.If):
            t, f = self.cond(s.test, p, fr)
            return self.block(s.body, t, fr) + self.block(s.orelse, f, fr)
        if isinstance(s, (ast.While, ast.For, ast.AsyncFor)):
            self.loops.append((fr["fn"], s, fr))
            self.loop_entries.append((fr["fn"], s, fr, p.clone()))
            pre_vals = {}
            for n in ast.walk(s):
                for t in (n.targets if isinstance(n, ast.Assign) else [n.target] if isinstance(n, (ast.AugAssign, ast.AnnAssign)) else []):
                    for t2 in ([t] if isinstance(t, ast.Name) else t.elts if isinstance(t, ast.Tuple) else []):
                        if isinstance(t2, ast.Name) and t2.id not in pre_vals:
                            try:
                                pre_vals[t2.id] = self.ev(ast.Name(id=t2.id, ctx=ast.Load()), p, fr)
                            except Unsupported:
                                pass
            p.effects.append(("loop", type(s).__name__, s.lineno, tuple(sorted(pre_vals.items(), key=lambda kv: kv[0]))))
            # havoc: every local / field assigned in the loop becomes unknown afterwards
            for n in ast.walk(s):
                if isinstance(n, (ast.Assign, ast.AugAssign, ast.AnnAssign)):
                    tg = n.targets if isinstance(n, ast.Assign) else [n.target]
                    for t in tg:
                        if isinstance(t, ast.Name):
                            p.store[("l", fr["id"], t.id)] = ("havoc", t.id, s.lineno)
                        elif isinstance(t, ast.Attribute) and isinstance(t.value, ast.Name) and t.value.id == "self":
                            p.store[("f", fr["self"], t.attr)] = ("havoc-field", t.attr, s.lineno)
                        elif isinstance(t, ast.Tuple):
                            for t2 in t.elts:
                                if isinstance(t2, ast.Name):
                                    p.store[("l", fr["id"], t2.id)] = ("havoc", t2.id, s.lineno)
            if isinstance(s, (ast.For, ast.AsyncFor)):
                for t2 in ast.walk(s.target):
                    if isinstance(t2, ast.Name):
                        p.store[("l", fr["id"], t2.id)] = ("havoc", t2.id, s.lineno)
            return [p]
        if isinstance(s, ast.Try):
            p.effects.append(("try", s.lineno))
            entry = p.clone()
            hnames = tuple(n_ for h in s.handlers for n_ in (["BaseException"] if h.type is None else [ast.unparse(x) for x in (h.type.elts if isinstance(h.type, ast.Tuple) else [h.type])]))
            outer = p.store.get(("handlers",), ())
            p.store[("handlers",)] = outer + (hnames,)
            # EAFP attribute probe `try: ... = X.attr  except AttributeError: ...` is the LBYL test hasattr(X, 'attr'): the body runs under the
            # guard, the AttributeError handler under its negation (so later reads of X are narrowed the same way in both spellings)
            probe = None
            if len(s.body) == 1 and isinstance(s.body[0], (ast.Assign, ast.AnnAssign, ast.Expr, ast.Return)) and getattr(s.body[0], "value", None) is not None:
                v_ = s.body[0].value
                if isinstance(v_, ast.Attribute) and isinstance(v_.ctx, ast.Load) and any(n_.split(".")[-1] == "AttributeError" for n_ in hnames):
                    try:
                        probe = (("call", "hasattr", (self.ev(v_.value, p, fr), ("c", v_.attr)), s.lineno), v_.attr)
                    except (Unsupported, NeedFork):
                        probe = None
            if probe is not None:
                p.guards.append((probe[0], True, s.lineno))
            body = self.block(s.body, [p], fr)
            for q in body:
                q.store[("handlers",)] = outer
            out = []
            for q in body:
                # an explicit raise inside the body (also inside an inlined callee) whose class a handler covers continues in that handler,
                # from the state at the raise
                if q.status == "raise":
                    last = next((e_ for e_ in reversed(q.effects) if e_[0] == "raise"), None)
                    cls_ = str(last[1]).split("(")[0].split(".")[-1] if last is not None else None
                    hit = None
                    if cls_ and cls_ != "reraise":
                        for h in s.handlers:
                            hn = ["BaseException"] if h.type is None else [ast.unparse(x) for x in (h.type.elts if isinstance(h.type, ast.Tuple) else [h.type])]
                            if exc_covered(cls_, (tuple(hn),)):
                                hit = (h, hn)
                                break
                    if hit is not None:
                        h, hn = hit
                        q.status = "run"
                        q.guards.append((("exc", ast.unparse(h.type) if h.type else "BaseException", s.lineno), True, h.lineno))
                        q.effects.append(("caught", cls_, h.lineno))
                        if h.name:
                            q.store[("l", fr["id"], h.name)] = ("excval", cls_, s.lineno)
                        out.extend(self.block(h.body, [q], fr))
                        continue
                if q.status == "run" and s.orelse:
                    out.extend(self.block(s.orelse, [q], fr))
                    continue
                out.append(q)
            # handlers analysed as alternative continuations from the try entry (coarse)
            for h in s.handlers:
                q = entry.clone()
                q.guards.append((("exc", ast.unparse(h.type) if h.type else "BaseException", s.lineno), True, h.lineno))
                if probe is not None and h.type is not None and ast.unparse(h.type).split(".")[-1] == "AttributeError":
                    q.guards.append((probe[0], False, h.lineno))
                if h.name:
                    q.store[("l", fr["id"], h.name)] = ("excval", ast.unparse(h.type) if h.type else "BaseException", s.lineno)
                out.extend(self.block(h.body, [q], fr))
            return self.block(s.finalbody, out, fr) if s.finalbody else out
        if isinstance(s, (ast.FunctionDef, ast.AsyncFunctionDef, ast.ClassDef, ast.Import, ast.ImportFrom, ast.Global, ast.Nonlocal)):
            return [p]
        if isinstance(s, ast.Match):
            subj = self.ev(s.subject, p, fr)
            out, rest = [], [p]
            for case in s.cases:
                nxt = []
                for q in rest:
                    cond, binds = self.pattern_sv(case.pattern, subj, q, fr)
                    if cond is None:
                        raise Unsupported("match pattern")
                    t, f = self.branch(cond, q, case.pattern.lineno) if cond != ("c", True) else ([q], [])
                    for x in t:
                        for k, v in binds.items():
                            x.store[("l", fr["id"], k)] = v
                    if case.guard is not None:
                        t2 = []
                        for x in t:
                            tt, ff = self.cond(case.guard, x, fr)
                            t2 += tt
                            f = f + ff
                        t = t2
                    out.extend(self.block(case.body, t, fr))
                    nxt.extend(f)
                rest = nxt
            return out + rest
        if isinstance(s, ast.With) and all(isinstance(it.context_expr, ast.Call) and isinstance(it.context_expr.func, ast.Name) and it.context_expr.func.id in ("memoryview", "nullcontext")
                                            for it in s.items):
            # with memoryview(x) as v: the view itself is bound; leaving the block only releases it
            for it in s.items:
                v = self.ev(it.context_expr, p, fr)
                if it.optional_vars is not None:
                    self.assign(it.optional_vars, v, p, fr, s.lineno)
            return self.block(s.body, [p], fr)
        if isinstance(s, (ast.With, ast.AsyncWith)):
            names = []
            for it in s.items:
                ce_ = it.context_expr
                if isinstance(ce_, ast.Call) and ast.unparse(ce_.func).endswith("suppress") and it.optional_vars is None:
                    names += [ast.unparse(a.value if isinstance(a, ast.Starred) else a) for a in ce_.args]
                else:
                    raise Unsupported("With")
            # with suppress(E...): body  ==  try: body / except E...: pass
            tr = ast.Try(body=s.body, handlers=[ast.ExceptHandler(type=ast.Tuple(elts=[ast.parse(n_, mode="eval").body for n_ in names], ctx=ast.Load()), name=None, body=[ast.Pass()])],
                         orelse=[], finalbody=[])
            ast.copy_location(tr, s)
            ast.fix_missing_locations(tr)
            return self._stmt(tr, p, fr)
        raise Unsupported(type(s).__name__)

    def exec_call(self, e, p: Path, fr):
        """statement-level call: returns list of (path, result_sv). Inlines resolved repo methods fully."""
        M = self.M
        if isinstance(e, ast.Attribute):
            # a property read executed like a call (fork_props)
            recv = self.ev(e.value, p, fr)
            m = M.find_method(self.sv_class(recv, fr), e.attr)
            nfr = self.frame(m, recv, [], fr)
            out = []
            for q in self.block(m.node.body, [p], nfr):
                if q.status == "return":
                    r = q.ret
                    q.status, q.ret = "run", None
                    out.append((q, r))
                else:
                    out.append((q, ("c", None)))
            return out
        f = e.func
        src = ast.unparse(f)
        if src.startswith(LOG_PREFIX):
            if self.track_exc:
                for a in e.args[1:] + ([e.args[0]] if e.args and not isinstance(e.args[0], ast.Constant) else []):
                    self.ev(a, p, fr)  # logging arguments are evaluated code: their exception sites count (the message too when it is built eagerly)
            elif self.M.has_memo:
                # without exception tracking the arguments matter only when evaluating them can fill a cached_property
                q = p.clone()
                try:
                    for a in e.args[1:]:
                        self.ev(a, q, fr)
                    p.effects.extend(x for x in q.effects[len(p.effects):] if x[0] == "memo")
                except (Unsupported, NeedFork):
                    pass
            p.effects.append(("log", tuple(ast.unparse(a) for a in e.args[1:]), e.lineno))
            return [(p, ("c", None))]
        args = [self.ev(a, p, fr) for a in e.args] + [("kw", k.arg, self.ev(k.value, p, fr)) for k in e.keywords if k.arg]
        if self.track_exc:
            self._call_xsites(e, args, p, fr)
        recv = None
        callee = None
        if isinstance(f, ast.Attribute):
            recv = self.ev(f.value, p, fr)
            ck = self.sv_class(recv, fr)
            if ck:
                callee = M.find_method(ck, f.attr)
            if callee is None and recv[0] == "class" and recv[1] in M.classes:
                cm = M.find_method(recv[1], f.attr)
                if cm is not None and cm.kind in ("static", "classmethod"):
                    # static / class method called through the class name: the same value as in an expression (no effect on the objects analysed)
                    return [(p, ("call", "." + f.attr, (recv,) + tuple(args), e.lineno))]
            if callee is None and f.attr in MUTATORS:
                # mutation of a builtin container held in a field/local
                key = self.sv_key(f.value, p, fr)
                newv = ("mut", recv, f.attr, tuple(args), e.lineno)
                if key:
                    p.store[key] = newv
                p.effects.append(("mutate", recv, f.attr, tuple(args), e.lineno))
                return [(p, ("call", "." + f.attr, (recv,) + tuple(args), e.lineno))]
        elif isinstance(f, ast.Name):
            ck = M.lookup_class_name(fr["fn"].mod, f.id)
            if ck:
                if self.track_exc:
                    for esc in self.ctor_escapes(ck):
                        self.xsite(p, esc[0], "ctor:" + esc[1], ("ctor", ck, esc[2], esc[3], esc[4], esc[5], tuple(args)), e.lineno, fr)
                return [(p, ("new", ck, e.lineno, tuple(args)))]
            if f.id in PURE_BUILTINS or f.id in ("tuple", "list"):
                return [(p, self.call_expr(e, p, fr))]
            lk = ("l", fr["id"], f.id)
            if lk in p.store:  # call through a local variable holding a function value
                r = ("calldyn", p.store[lk], tuple(args), e.lineno)
                p.effects.append(r)
                return [(p, r)]
            callee = M.funcs.get(f"{fr['fn'].mod}.{f.id}")
        if callee is not None and callee.name in self.no_inline:
            p.effects.append(("call", callee.qual, tuple(args), e.lineno))
            return [(p, ("call", callee.qual, tuple(([recv] if recv else []) + args), e.lineno))]
        may_inline = callee is not None and (self.inline_sub or recv is None or recv == ("self0",) or callee.kind == "static")
        if callee is not None and not may_inline:
            key = self.sv_key(f.value, p, fr) if isinstance(f, ast.Attribute) else None
            p.effects.append(("callm", recv, callee.qual, tuple(args), e.lineno))
            if key and key in p.store and p.store[key][0] != "new":
                pass
            # the sub-object's state changed: version it so later guards on it are distinct atoms
            p.store[("ver", recv)] = p.store.get(("ver", recv), 0) + 1
            return [(p, ("call", callee.qual, (recv,) + tuple(args), e.lineno))]
        if callee is not None and fr["depth"] < self.depth and not isinstance(callee.node, ast.AsyncFunctionDef):
            nfr = self.frame(callee, recv if callee.kind != "static" else None, args, fr)
            sub = self.block(callee.node.body, [p], nfr)
            out = []
            for q in sub:
                if q.status == "return":
                    r = q.ret
                    q.status, q.ret = "run", None
                    out.append((q, r))
                elif q.status == "run":
                    out.append((q, ("c", None)))
                else:
                    out.append((q, ("c", None)))  # raise propagates (status stays 'raise')
            return out
        p.effects.append(("call", callee.qual if callee else src, tuple(args), e.lineno))
        return [(p, ("call", callee.qual if callee else src, tuple(([recv] if recv else []) + args), e.lineno))]

    def sv_key(self, node, p, fr):
        if isinstance(node, ast.Name):
            return ("l", fr["id"], node.id)
        if isinstance(node, ast.Attribute):
            return ("f", self.ev(node.value, p, fr), node.attr)
        return None


def strip_epoch(sv):
    """drop the await-epoch of field reads (for role matching: the same field, whatever its value at that time)"""
    if isinstance(sv, tuple):
        if len(sv) == 4 and sv[0] == "f0":
            return ("f0", strip_epoch(sv[1]), sv[2])
        return tuple(strip_epoch(x) for x in sv)
    return sv


# ---------------------------------------------------------------- pretty printing
def show_sv(v, d=0):
    if v is None:
        return "None"
    t = v[0]
    if t == "c":
        return hex(v[1]) if isinstance(v[1], int) and not isinstance(v[1], bool) and v[1] > 9 else repr(v[1])
    if t == "self0":
        return "self"
    if t == "f0":
        return f"{show_sv(v[1])}.{v[2]}"
    if t == "p":
        return f"<{v[1]}>"
    if t == "new":
        return f"new {v[1][1]}"
    if t == "cmp":
        sym = {"Eq": "==", "NotEq": "!=", "Is": "is", "IsNot": "is not", "Lt": "<", "Gt": ">", "LtE": "<=", "GtE": ">=", "In": "in", "NotIn": "not in"}[v[1]]
        return f"({show_sv(v[2])} {sym} {show_sv(v[3])})"
    if t == "op":
        return f"({show_sv(v[2])} {v[1]} {show_sv(v[3])})"
    if t == "prop":
        return f"{show_sv(v[1])}.{v[2]}" + (f"#{v[3]}" if len(v) > 3 and v[3] else "")
    if t == "len":
        return f"len({show_sv(v[1])})" + (f"#{v[2]}" if len(v) > 2 and v[2] else "")
    if t == "not":
        return f"not {show_sv(v[1])}"
    if t == "bool":
        return "(" + f" {v[1]} ".join(show_sv(x) for x in v[2]) + ")"
    if t == "call":
        return f"{v[1]}({', '.join(show_sv(a) for a in v[2])})"
    if t == "mut":
        return f"{show_sv(v[1])}+{v[2]}"
    if t == "fstr":
        return "f'" + "".join(x[1] if x[0] == "lit" else "{" + show_sv(x[1]) + "}" for x in v[1]) + "'"
    if t == "sub":
        return f"{show_sv(v[1])}[{show_sv(v[2])}]"
    if t == "slice":
        return f"{show_sv(v[1])}[{show_sv(v[2])}:{show_sv(v[3])}]"
    return str(v)


def show_path(p: Path):
    out = []
    for g, pol, ln in p.guards:
        out.append(f"   {'   ' if pol else 'NOT'} {show_sv(g)}   @{ln}")
    for e in p.effects:
        if e[0] == "write":
            out.append(f"    => {show_sv(e[1])}.{e[2]} := {show_sv(e[3])}   @{e[4]}")
        elif e[0] == "mutate":
            out.append(f"    => {show_sv(e[1])}.{e[2]}({', '.join(show_sv(a) for a in e[3])})   @{e[4]}")
        elif e[0] == "log":
            pass
        elif e[0] == "callm":
            out.append(f"    => {show_sv(e[1])} . {e[2].split('.')[-1]}({', '.join(show_sv(a) for a in e[3])})   @{e[4]}")
        else:
            out.append(f"    => {e}")
    out.append(f"    [{p.status}] ret={show_sv(p.ret) if p.ret else None}")
    return "\n".join(out)


def loop_paths_at(E: Engine, fn: Func, node, path=None, fr=None):
    """paths through the body of a given loop node, starting from `path` (default: fresh store) in frame `fr`"""
    if fr is None:
        fr = E.frame(fn, ("self0",), [], None)
        fr["params"] = {a: ("p", a) for a in fn.params}
    p = path.clone() if path is not None else Path()
    p.status = "run"
    starts = [p]
    if isinstance(node, ast.While):
        t, f = E.cond(node.test, p, fr)
        starts = t
    elif _iter_sentinel(node) is not None and isinstance(node.target, ast.Name):
        # for x in iter(f, sentinel): the step obtains f() and tests it against the sentinel
        cs = _iter_sentinel(node)
        call = ast.copy_location(ast.Call(func=cs[0], args=[], keywords=[]), node.iter)
        ast.fix_missing_locations(call)
        starts = []
        for q, r in E.exec_call(call, p, fr):
            if q.status != "run":
                continue
            E.assign(node.target, r, q, fr, node.lineno)
            test = ast.copy_location(ast.Compare(left=ast.Name(id=node.target.id, ctx=ast.Load()), ops=[ast.Eq()], comparators=[cs[1]]), node.iter)
            ast.fix_missing_locations(test)
            t, f = E.cond(test, q, fr)
            starts += f
    else:
        it = E.ev(node.iter, p, fr)
        E.assign(node.target, ("iter", it, node.lineno), p, fr, node.lineno)
    return E.block(node.body, starts, fr), fr


def loop_body_paths(E: Engine, fn: Func, nth=0, pre=None):
    """paths through the body of the nth top-level loop of fn (fresh store), plus the loop test as first guard for While."""
    loops = [n for n in ast.walk(fn.node) if isinstance(n, (ast.While, ast.For))]
    loops.sort(key=lambda n: n.lineno)
    node = loops[nth]
    fr = E.frame(fn, ("self0",), [], None)
    fr["params"] = {a: ("p", a) for a in fn.params}
    p = Path()
    if pre:
        pre(p, fr)
    starts = [p]
    if isinstance(node, ast.While):
        t, f = E.cond(node.test, p, fr)
        starts = t
    else:
        it = E.ev(node.iter, p, fr)
        E.assign(node.target, ("iter", it, node.lineno), p, fr, node.lineno)
    return node, E.block(node.body, starts, fr)


def _iter_sentinel(node):
    """for x in iter(callable, sentinel)  ->  (callable expr, sentinel expr)"""
    it = node.iter
    if isinstance(it, ast.Call) and isinstance(it.func, ast.Name) and it.func.id == "iter" and len(it.args) == 2 and not it.keywords:
        return it.args[0], it.args[1]
    return None


def loop_iterations(E: Engine, fn: Func, pre=None):
    """One iteration of the single top-level loop of fn, starting at the loop head with a fresh store.
    Returns (loop node, continuing paths, leaving paths, frame): continuing paths are back at the loop head (status run);
    leaving paths went through the loop exit (test false / iterator exhausted / break) and the statements after the loop, or
    returned / raised inside the body (status return / raise).  `while` tests with calls or walrus targets and
    `for x in iter(f, sentinel)` are normalised to the same form (the step obtains the value, then tests it)."""
    body = fn.node.body
    loops = [s for s in body if isinstance(s, (ast.While, ast.For))]
    if len(loops) != 1:
        return None
    node = loops[0]
    epilogue = body[body.index(node) + 1:]
    fr = E.frame(fn, ("self0",), [], None)
    fr["params"] = {a: ("p", a) for a in fn.params}
    p = Path()
    if pre:
        pre(p, fr)
    _seed_invariant_aliases(E, fn, node, body[:body.index(node)], p, fr)
    exits = []
    if isinstance(node, ast.While):
        starts, exits = E.cond(node.test, p, fr)
    else:
        cs = _iter_sentinel(node)
        if cs is not None:
            call = ast.copy_location(ast.Call(func=cs[0], args=[], keywords=[]), node.iter)
            ast.fix_missing_locations(call)
            starts = []
            for q, r in E.exec_call(call, p, fr):
                if q.status != "run":
                    exits.append(q)
                    continue
                E.assign(node.target, r, q, fr, node.lineno)
                test = ast.copy_location(ast.Compare(left=ast.Name(id=node.target.id, ctx=ast.Load()), ops=[ast.Eq()], comparators=[cs[1]]), node.iter)
                ast.fix_missing_locations(test)
                t, f = E.cond(test, q, fr)
                exits += t
                starts += f
        else:
            it = E.ev(node.iter, p, fr)
            ex = p.clone()
            ex.guards.append((("exhausted", it), True, node.lineno))
            exits = [ex]
            E.assign(node.target, ("iter", it, node.lineno), p, fr, node.lineno)
            starts = [p]
    exits = E.block(node.orelse, exits, fr) if node.orelse else exits
    out = E.block(node.body, [q for q in starts if q.status == "run"], fr) + [q for q in starts if q.status != "run"]
    conts, leaving = [], []
    for q in out:
        if q.status == "break":
            q.status = "run"
            exits.append(q)
        elif q.status in ("run", "continue"):
            q.status = "run"
            conts.append(q)
        else:
            leaving.append(q)
    for q in E.block(epilogue, [x for x in exits if x.status == "run"], fr) + [x for x in exits if x.status != "run"]:
        if q.status == "run":
            q.status, q.ret = "return", ("c", None)
        leaving.append(q)
    return node, conts, leaving, fr


def _seed_invariant_aliases(E, fn, loop, prologue, p, fr):
    """locals bound before the loop to a field that is never rebound after construction (`buffer = self._buffer`) keep that
    meaning in every iteration; everything else assigned before the loop is unknown at the loop head"""
    in_loop = {n.id for n in ast.walk(loop) if isinstance(n, ast.Name) and isinstance(n.ctx, ast.Store)}
    cls = E.M.classes.get((fn.mod, fn.cls)) if fn.cls else None
    if cls is None or not prologue:
        return
    rebound = set()
    for name, m in cls.methods.items():
        if name == "__init__":
            continue
        for n in ast.walk(m.node):
            if isinstance(n, ast.Attribute) and isinstance(n.ctx, (ast.Store, ast.Del)) and isinstance(n.value, ast.Name) and n.value.id == "self":
                rebound.add(n.attr)
    try:
        pro = E.block(prologue, [Path()], fr)
    except (Unsupported, NeedFork):
        return
    vals = {}
    for q in pro:
        if q.status != "run":
            continue
        for k, v in q.store.items():
            if k[0] == "l" and k[1] == fr["id"]:
                vals.setdefault(k, set()).add(v)
    for k, vs in vals.items():
        if k[2] in in_loop or len(vs) != 1:
            continue
        v = next(iter(vs))
        if v[0] == "f0" and v[1] == ("self0",) and len(v) == 3 and v[2] not in rebound:
            p.store[k] = v


def explore(E: Engine, fn: Func):
    """all paths of fn including (recursively) one iteration of every loop reached, each loop body started from the havoc'ed state at its entry"""
    out = list(E.run(fn))
    done = set()
    i = 0
    while i < len(E.loop_entries):
        lfn, node, lfr, entry = E.loop_entries[i]
        i += 1
        if id(node) in done:
            continue
        done.add(id(node))
        # an arbitrary iteration: nothing is known about the fields (callees may have written them) or about locals assigned in the loop;
        # locals bound before the loop keep their value unless it reads a field that is rebound somewhere in the class
        start = Path()
        in_loop = {n.id for n in ast.walk(node) if isinstance(n, ast.Name) and isinstance(n.ctx, ast.Store)}
        cls = E.M.classes.get((lfn.mod, lfn.cls)) if lfn.cls else None
        rebound = set()
        if cls is not None:
            for name, m in cls.methods.items():
                if name == "__init__":
                    continue
                for n in ast.walk(m.node):
                    if isinstance(n, ast.Attribute) and isinstance(n.ctx, (ast.Store, ast.Del)) and isinstance(n.value, ast.Name) and n.value.id == "self":
                        rebound.add(n.attr)

        def stable(sv):
            if isinstance(sv, tuple):
                if sv and sv[0] == "f0" and len(sv) >= 3 and sv[1] == ("self0",) and sv[2] in rebound:
                    return False
                if sv and sv[0] in ("havoc", "havoc-field", "mut"):
                    return False
                return all(stable(x) for x in sv if isinstance(x, tuple))
            return True
        for k, v in entry.store.items():
            if k[0] == "l" and k[2] not in in_loop and stable(v):
                start.store[k] = v
            elif k[0] == "l" and k[2] not in in_loop:
                start.store[k] = ("havoc", k[2], node.lineno)
        if ("handlers",) in entry.store:
            start.store[("handlers",)] = entry.store[("handlers",)]
        body, _ = loop_paths_at(E, lfn, node, start, lfr)
        out.extend(body)
    return out
