"""Evaluation of the small pure expressions embedded in construct declarations (adapter decoders, `this.x` conditions,
Computed lambdas) on representative values of the fields they read (value classes such as {0xFF, other}).

External constructors (datetime.datetime, datetime.timezone, datetime.timedelta, Decimal) are not executed: a call to them yields a
symbolic record Sym(name, args, kwargs) so that expected and actual argument lists can be compared."""
from __future__ import annotations

import ast

from sa.consteval import ConstEval, NotConstant, Opaque, _Return


class Ctx(dict):
    """parse context: attribute access = key access; `_` is the parent context"""

    def attr(self, name):
        if name in self:
            return self[name]
        raise NotConstant(f"context has no member {name}")


class Ext:
    def __init__(self, name):
        self.name = name

    def __repr__(self):
        return f"<ext {self.name}>"


class Sym(tuple):
    """('sym', name, args tuple, kwargs tuple)"""

    def __new__(cls, name, args=(), kwargs=()):
        return tuple.__new__(cls, ("sym", name, tuple(args), tuple(sorted(kwargs))))


EXT_ROOTS = {"datetime", "construct", "Decimal", "decimal"}


class LamEval(ConstEval):
    def eval(self, e, env, mod):
        if isinstance(e, ast.Name) and e.id not in env:
            if e.id in EXT_ROOTS:
                return Ext(e.id)
        if isinstance(e, ast.Attribute):
            base = self.eval(e.value, env, mod)
            if isinstance(base, Ext):
                if base.name == "construct" and e.attr == "this":
                    if "__ctx__" not in env:
                        raise NotConstant("no context for construct.this")
                    return env["__ctx__"]
                return Ext(base.name + "." + e.attr)
            if isinstance(base, Ctx):
                return base.attr(e.attr)
            if base is None:
                raise NotConstant(f"attribute {e.attr} of None")
        if isinstance(e, ast.Call):
            try:
                f = self.eval(e.func, env, mod)
            except NotConstant:
                f = None  # map / filter / zip ...: names the base evaluator summarises as calls
            if isinstance(f, Ext):
                args = [self.eval(a, env, mod) for a in e.args]
                kw = [(k.arg, self.eval(k.value, env, mod)) for k in e.keywords if k.arg]
                return Sym(f.name, args, kw)
            if isinstance(f, Opaque) and f.what == "lambda":
                lam = f.node
                params = [a.arg for a in lam.args.args]
                args = [self.eval(a, env, mod) for a in e.args]
                loc = dict(env)
                loc.update(zip(params, args))
                return self.eval(lam.body, loc, f.mod or mod)
        if isinstance(e, ast.BinOp):
            a, b = self.eval(e.left, env, mod), self.eval(e.right, env, mod)
            if isinstance(a, Sym) or isinstance(b, Sym):
                return Sym("op:" + type(e.op).__name__, [a, b])
            if a is None or b is None:
                raise NotConstant("arithmetic on None")
            return self.binop(e.op, a, b)
        return super().eval(e, env, mod)

    def call_lambda(self, lam_node, args, mod, extra=None):
        """apply a lambda, or a named module-level function used in its place, to the given values"""
        params = [a.arg for a in lam_node.args.args]
        env = dict(extra or {})
        env.update(zip(params, args))
        if args and isinstance(args[-1], Ctx):
            env["__ctx__"] = args[-1]
        if isinstance(lam_node, ast.FunctionDef):
            try:
                self.exec_block(lam_node.body, env, mod)
            except _Return as r:
                return r.v
            return None
        return self.eval(lam_node.body, env, mod)

    def eval_this(self, node, ctx, mod):
        """evaluate an expression written with construct.this / len_ on a context"""
        return self.eval(node, {"__ctx__": ctx}, mod)
