"""Outcome bookkeeping shared by all property checks.

Three outcomes, never conflated (DESIGN.md 1.1):
  exit 0  HOLDS      every rule instance recognised and discharged (or a listed known finding)
  exit 1  VIOLATION  a rule instance is positively violated and not listed in known_findings.json
  exit 2  UNDECIDED  anchor vanished / idiom outside the catalogue / floor not reached / checker crashed
"""
from __future__ import annotations

import json
import os
import time

VERIF = os.path.dirname(os.path.dirname(os.path.abspath(__file__)))


class Undecided(Exception):
    """The analysis cannot decide (anchor vanished, idiom not recognised)."""


class ModelViolation(Exception):
    """A premise of the shared model is positively false in the source (not merely unrecognised): reported as a violation (rule R0) by every
    property whose decision rests on that model."""

    def __init__(self, at, construct, reason, file=None, line=None, witness=None):
        super().__init__(reason)
        self.at, self.construct, self.reason, self.file, self.line, self.witness = at, construct, reason, file, line, witness


class Finding:
    def __init__(self, rule, at, construct, reason, file=None, line=None, witness=None):
        self.rule = rule  # e.g. "R1"
        self.at = at  # qualified function / construct the finding is anchored at
        self.construct = construct  # normalised construct (keyed, no line numbers)
        self.reason = reason
        self.file = file
        self.line = line
        self.witness = witness

    def key(self, pid):
        return (pid, self.rule, self.at, self.construct)

    def as_dict(self):
        d = {"rule": self.rule, "at": self.at, "construct": self.construct, "reason": self.reason}
        if self.file:
            d["file"] = self.file
        if self.line:
            d["line"] = self.line
        if self.witness is not None:
            d["witness"] = self.witness
        return d

    def text(self):
        loc = f"{self.file or '?'}:{self.line or '?'}"
        w = f" witness={self.witness}" if self.witness is not None else ""
        return f"{loc} {self.at} rule={self.rule} construct={self.construct} :: {self.reason}{w}"


class Report:
    def __init__(self, pid, tier="quick", seed=0, level="other"):
        self.pid = pid
        self.tier = tier
        self.seed = seed
        self.level = level
        self.t0 = time.time()
        self.obligations = []  # (rule, instance, how, nontrivial)
        self.findings: list[Finding] = []
        self.undecided: list[str] = []
        self.analysed = {}  # free-form counts of what was analysed
        self.notes: list[str] = []
        self.assumptions: list[str] = []
        self.explanation = ""
        self.extra = {}
        self.floors = []  # (name, count, floor)
        self.selfval = None

    # ------------------------------------------------------------- recording
    def ok(self, rule, instance, how, nontrivial=True):
        self.obligations.append((rule, str(instance), str(how), bool(nontrivial)))

    def violation(self, rule, at, construct, reason, file=None, line=None, witness=None):
        for f in self.findings:
            if (f.rule, f.at, f.construct) == (rule, at, construct) and (f.witness == witness or len([g for g in self.findings if (g.rule, g.at, g.construct) == (rule, at, construct)]) >= 3):
                return  # same instance already reported (or enough witnesses of it)
        self.findings.append(Finding(rule, at, construct, reason, file, line, witness))

    def undecide(self, what):
        self.undecided.append(str(what))

    def count(self, name, n):
        self.analysed[name] = self.analysed.get(name, 0) + n

    def floor(self, name, count, floor):
        self.floors.append((name, count, floor))
        if count < floor:
            self.undecide(f"instance floor not reached: {name} = {count} < {floor} (rule would pass vacuously)")

    def require(self, cond, what):
        if not cond:
            raise Undecided(what)

    # ------------------------------------------------------------- finishing
    def finish(self, known_path=None, write=True, quiet=False):
        known_path = known_path or os.path.join(VERIF, "known_findings.json")
        known = {}
        try:
            kf = json.load(open(known_path))
            for k in kf.get("known", []):
                if k.get("property") == self.pid:
                    known[(k["property"], k["rule"], k["at"], k["construct"])] = k
        except FileNotFoundError:
            pass
        out = []
        new, listed = [], []
        for f in self.findings:
            (listed if f.key(self.pid) in known else new).append(f)
        status = "HOLDS"
        code = 0
        if new:
            status, code = "VIOLATION", 1
        elif self.undecided:
            status, code = "UNDECIDED", 2
        rules = {}
        for r, *_ in self.obligations:
            rules[r] = rules.get(r, 0) + 1
        out.append(f"== {self.pid} [{self.tier}] {status}: {len(self.obligations)} obligations discharged "
                   f"({', '.join(f'{r}:{n}' for r, n in sorted(rules.items()))}); "
                   f"{len(new)} violation(s), {len(listed)} known finding(s), {len(self.undecided)} undecided")
        if self.analysed:
            out.append("   analysed: " + ", ".join(f"{k}={v}" for k, v in sorted(self.analysed.items())))
        for name, c, fl in self.floors:
            out.append(f"   floor {name}: {c} >= {fl}" if c >= fl else f"   FLOOR MISSED {name}: {c} < {fl}")
        for f in listed:
            out.append(f"KNOWN-FINDING: property={self.pid} {f.text()}")
        replay = os.path.join(VERIF, "evidence", f"{self.pid}.replay.json")
        if new:
            out.append(f"VIOLATION property={self.pid} replay={replay}")
            for f in new:
                out.append("   " + f.text())
        for u in self.undecided:
            out.append(f"ANALYSIS-INCOMPLETE property={self.pid} {u}")
        for n in self.notes:
            out.append("   note: " + n)
        if self.selfval:
            out.append("   self-validation: " + json.dumps(self.selfval.get("summary", {})))
        wall = time.time() - self.t0
        if write:
            os.makedirs(os.path.join(VERIF, "evidence"), exist_ok=True)
            distinct = len({(r, i) for r, i, h, nt in self.obligations if nt})
            samples = [f"{r} {i} -> {h}" for r, i, h, nt in self.obligations if nt][:12]
            if not samples:
                samples = [f"{r} {i} -> {h}" for r, i, h, nt in self.obligations][:12]
            for f in (new + listed)[:8]:
                samples.append("FINDING " + f.text())
            cov = {
                "explanation": self.explanation or "static rule instances over /repo's current source; see DESIGN.md",
                "evaluations": len(self.obligations) + len(self.findings),
                "distinct_nontrivial": distinct,
                "rule": "one evaluation per rule instance (file/function/path/construct) examined on the parsed source; "
                        "non-trivial = needed a guard, path, matrix, table or shape argument to discharge; distinct by (rule, instance)",
                "samples": samples or ["(none)"],
                "obligations": len(self.obligations) + len(self.findings) + len(self.undecided),
                "discharged": len(self.obligations),
                "analysed": self.analysed,
                "floors": [{"name": n, "count": c, "floor": f} for n, c, f in self.floors],
                "rules": rules,
                "status": status,
                "known_findings_present": [f.as_dict() for f in listed],
                "undecided": self.undecided,
            }
            cov.update(self.extra)
            if self.selfval is not None:
                cov["self_validation"] = self.selfval
            ev = {
                "property_id": self.pid,
                "tier": self.tier,
                "seed": int(self.seed),
                "level": self.level,
                "coverage": cov,
                "assumptions": self.assumptions,
                "wall_s": round(wall, 3),
                "violations": len(new),
            }
            with open(os.path.join(VERIF, "evidence", f"{self.pid}.json"), "w") as fh:
                json.dump(ev, fh, indent=1, default=str)
            if new:
                with open(replay, "w") as fh:
                    json.dump({"property": self.pid, "violations": [f.as_dict() for f in new]}, fh, indent=1, default=str)
            elif os.path.exists(replay):
                os.remove(replay)
        if not quiet:
            try:
                print("\n".join(out), flush=True)
            except BrokenPipeError:
                pass
        return code
