"""C03 through the public API (E-ABS/BV): FastFrameCheckSequence16 objects are built by their constructor and fed symbolic octets with update().

After k octets (k = 0..3) the value returned by update(), `checksum` and `is_good` are compared, as GF(2)-affine bit-vectors over the 8k octet
variables, with the RFC 1662 bit-serial fold of the same octets.  The register after two symbolic octets ranges over all 2^16 values (the map from
the 16 octet bits to the 16 register bits is checked to be a bijection), so the case k = 3 is the statement "one update step is the RFC step for
every register value and every octet", and by induction the fold is right for every length.  Nothing is bound to private names: a register kept
in a named tuple, a helper object, a step function outside the class are all the same to the interpreter."""
from __future__ import annotations

from sa.bitlin import BV, Vars, ref_crc_reflected_step
from sa.bveval import BVEval, Pred, pred_of

POLY, INIT, GOOD = 0x8408, 0xFFFF, 0xF0B8
MOD, CLS = "fastframecheck", "FastFrameCheckSequence16"


def _rank(bits, nvars):
    """rank over GF(2) of affine forms (constant term dropped)"""
    rows = [b >> 1 for b in bits if isinstance(b, int)]
    rank = 0
    for col in range(nvars + 64):
        piv = next((i for i in range(rank, len(rows)) if (rows[i] >> col) & 1), None)
        if piv is None:
            continue
        rows[rank], rows[piv] = rows[piv], rows[rank]
        for i in range(len(rows)):
            if i != rank and (rows[i] >> col) & 1:
                rows[i] ^= rows[rank]
        rank += 1
    return rank


def same_bv(a, b):
    a = BV.const(a) if isinstance(a, int) and not isinstance(a, bool) else a
    b = BV.const(b) if isinstance(b, int) and not isinstance(b, bool) else b
    return isinstance(a, BV) and isinstance(b, BV) and a == b


def _holds_bv(v):
    if isinstance(v, BV):
        return True
    if hasattr(v, "attrs"):
        return any(_holds_bv(x_) for x_ in v.attrs.values())
    if isinstance(v, (list, tuple)):
        return any(_holds_bv(x_) for x_ in v)
    return False


def incremental(M):
    """('ok', cells) | ('bad', obligation, method, text) | ('undecided', text)"""
    key = (MOD, CLS)
    C = M.classes.get(key)
    if C is None:
        return ("undecided", "anchor vanished: FastFrameCheckSequence16")
    fns = {n: M.find_method(key, n) for n in ("update", "checksum", "is_good")}
    if any(f is None for f in fns.values()):
        return ("undecided", f"anchor vanished: {[n for n, f in fns.items() if f is None]}")
    cells = 0
    for k in range(0, 4):
        A = BVEval(M)
        vars_ = Vars()
        octs = [vars_.fresh(f"o{i}", 8) for i in range(k)]
        try:
            obj = A.instantiate(key, [])
        except Exception as ex:  # noqa
            return ("undecided", f"FastFrameCheckSequence16() outside the interpreted subset: {ex}")
        ref = BV.const(INIT)
        for i, o in enumerate(octs):
            r = A.apply(fns["update"], [obj, o])
            ref = ref_crc_reflected_step(ref, o, POLY)
            if r[0] in ("undecided", "branch"):
                return ("undecided", f"update() outside the interpreted subset (octet {i}): {r[1]!r}")
            if r[0] == "raise":
                return ("bad", "O2", "update", f"update() raises {r[1]} for octet {i} of a message")
            cells += 1
            if not same_bv(r[1], ref):
                what = "O3" if isinstance(r[1], (BV, int)) and i > 0 and False else "O2"
                return ("bad", "O2", "update", f"after {i + 1} octet(s) fed to a new object, update() returns a value that is not the RFC 1662 register of those octets"
                        + (" (the value returned is not the new register)" if r[1] is None else ""))
        if k == 2:
            if _rank(list(ref.bits) + [0] * (16 - len(ref.bits)), 16) != 16:
                return ("undecided", "the register after two symbolic octets does not range over all 16-bit values (reference step is not what this argument assumes)")
        # checksum and is_good after k octets
        r = A.apply(fns["checksum"], [obj])
        if r[0] in ("undecided", "branch"):
            return ("undecided", f"checksum outside the interpreted subset: {r[1]!r}")
        cells += 1
        if r[0] != "value" or not same_bv(r[1], ref ^ BV.const(0xFFFF)):
            return ("bad", "O4" if k else "O3", "checksum", f"after {k} octet(s) checksum is not the one's complement of the RFC 1662 register" + (" (a new object does not behave as register 0xFFFF)" if k == 0 else ""))
        r = A.apply(fns["is_good"], [obj])
        if r[0] in ("undecided", "branch"):
            return ("undecided", f"is_good outside the interpreted subset: {r[1]!r}")
        cells += 1
        p = pred_of(ref, GOOD)
        want = (p[0] == "always") if p[0] in ("never", "always") else Pred(p)
        got = r[1] if r[0] == "value" else None
        if isinstance(got, BV) and got.is_const():
            got = bool(got.value())
        if not (got == want and isinstance(got, bool) == isinstance(want, bool)):
            return ("bad", "O5", "is_good", f"after {k} octet(s) is_good is not the test `register == 0xF0B8`")
        # update() keeps no state besides the register: anything else that changed since construction would make the step depend on the history
        if k == 3:
            fresh = A.instantiate(key, [])

            def flat(v):
                if isinstance(v, BV):
                    return ("bv",)
                if hasattr(v, "attrs"):
                    return tuple(sorted((a_, flat(x_)) for a_, x_ in v.attrs.items() if not callable(x_)))
                return v if isinstance(v, (int, str, bool, type(None), float)) else ("other",)
            changed = [a_ for a_ in obj.attrs if flat(obj.attrs[a_]) != flat(fresh.attrs.get(a_)) and not _holds_bv(obj.attrs[a_]) and not _holds_bv(fresh.attrs.get(a_))]
            # a concrete value that differs after three octets and is not bit-vector valued is history (a counter, a flag)
            changed = [a_ for a_ in changed if not isinstance(fresh.attrs.get(a_), BV)]
            if changed:
                return ("bad", "O2", "update", f"update() keeps state besides the FCS register that changes with the octets fed ({', '.join(sorted(changed))}): the step can depend on the history of the object")
        # a second read gives the same answers (no state consumed by reading)
        r2 = A.apply(fns["checksum"], [obj])
        if r2 != r and not (r2[0] == "value" and same_bv(r2[1], ref ^ BV.const(0xFFFF))):
            return ("bad", "O4", "checksum", "reading checksum changes the object")
    return ("ok", cells)


def one_shot(M):
    """compute_checksum on six symbolic octets for every window with start, length <= 4: ('ok', cells) | ('bad', text) | ('undecided', text)"""
    key = (MOD, CLS)
    fn = M.find_method(key, "compute_checksum")
    if fn is None:
        return ("undecided", "anchor vanished: compute_checksum")
    cells = 0
    for st in range(0, 5):
        for ln in range(0, 5):
            A = BVEval(M)
            vars_ = Vars()
            octs = [vars_.fresh(f"d{i}", 8) for i in range(8)]
            r = A.apply(fn, [tuple(octs), st, ln])
            if r[0] in ("undecided", "branch"):
                return ("undecided", f"compute_checksum outside the interpreted subset (start={st}, length={ln}): {r[1]!r}")
            ref = BV.const(INIT)
            for o in octs[st:st + ln]:
                ref = ref_crc_reflected_step(ref, o, POLY)
            cells += 1
            if r[0] != "value" or not same_bv(r[1], ref ^ BV.const(0xFFFF)):
                return ("bad", f"for the window start={st}, length={ln} of symbolic octets the result is not the complemented RFC 1662 fold over exactly data[start : start+length]")
            if st <= 1 and ln <= 2:
                # the same window of a bytearray (the type HdlcFrame collects its octets in): a byte string like any other
                r2 = BVEval(M).apply(fn, [list(octs), st, ln])
                if r2[0] in ("undecided", "branch"):
                    return ("undecided", f"compute_checksum outside the interpreted subset for a bytearray (start={st}, length={ln}): {r2[1]!r}")
                if r2[0] == "raise":
                    return ("bad", f"compute_checksum raises {r2[1]} for a bytearray argument (start={st}, length={ln}): it accepts bytes only")
                if not same_bv(r2[1], ref ^ BV.const(0xFFFF)):
                    return ("bad", f"for a bytearray and the window start={st}, length={ln} the result is not the complemented RFC 1662 fold over exactly data[start : start+length]")
    # long windows on concrete octets (block-wise processing, chunked folds): compared with the bit-serial definition
    from sa.abseval import AbsEval

    def ref_fcs(bs):
        fcs = INIT
        for b in bs:
            fcs ^= b
            for _ in range(8):
                fcs = (fcs >> 1) ^ POLY if fcs & 1 else fcs >> 1
        return fcs ^ 0xFFFF
    for ln in (255, 256, 257, 1024, 1025, 2047, 2049, 4100):
        data = bytes((i * 37 + 11) % 256 for i in range(ln + 3))
        A = AbsEval(M)
        A.budget = max(getattr(A, "budget", 0), 5_000_000)
        r = A.apply(fn, [data, 1, ln])
        if r[0] in ("undecided", "branch"):
            return ("undecided", f"compute_checksum outside the interpreted subset for a window of {ln} concrete octets: {r[1]!r}"[:200])
        cells += 1
        if r[0] != "value" or r[1] != ref_fcs(data[1:1 + ln]):
            return ("bad", f"for a window of {ln} octets (start=1) the result is not the complemented RFC 1662 fold over data[start : start+length]" + (f" (raises {r[1]})" if r[0] == "raise" else ""))
    return ("ok", cells)
