"""E-ABS: abstract interpretation of repository functions over symbolic terms and tagged abstract objects.

The interpreter of E-CONST (sa/consteval.py) is extended from closed initialisers to functions applied to *abstract
inputs*: uninterpreted terms (`Res`, optionally carrying a Python type tag), abstract objects (`AObj`: a type tag and named
attributes, as produced by a construct parse) and ordinary containers of those.  Arithmetic and calls on terms build
larger terms; `isinstance` / `hasattr` / attribute reads are answered from the tags; a branch on a term that the abstract
input does not determine raises `SymbolicBranch` (the caller reports which condition looked at the transmitted value);
`raise` and failing attribute reads surface as `AbsRaise`.  Nothing of the repository is executed by CPython and no
concrete meter value is involved: each abstract input stands for the whole class of parsed lists of that shape, so a
result term equal to the specification's term is an equality for every member of the class.  Control flow of any shape
(helpers, early returns, for/else searches, generator + next(), conditional expressions) is simply interpreted.
"""
from __future__ import annotations

import ast

from sa.consteval import BuiltinRaised, ConstEval, FuncRef, NotConstant, Opaque, SAFE_BUILTINS, _Return
from sa.sveval import Res


class Sym(Res):
    """a term with a Python type tag (not part of its identity)"""
    __slots__ = ("pytype",)

    def __init__(self, name, pytype=None):
        super().__init__(name)
        self.pytype = pytype


class AObj:
    def __init__(self, pytype, attrs=None, name=None, cls_key=None):
        self.pytype, self.attrs, self.name = pytype, dict(attrs or {}), name or pytype
        self.cls_key = cls_key  # (module, class) of a repository class whose methods / properties apply to this object

    def __repr__(self):
        return f"<{self.name}>"


class AbsRaise(Exception):
    def __init__(self, cls, msg=""):
        super().__init__(f"{cls}: {msg}")
        self.cls = cls


class SymbolicBranch(Exception):
    def __init__(self, term, node=None):
        super().__init__(f"branch on {term!r}")
        self.term, self.node = term, node


NUM_ATTRS = {"bit_length", "is_integer", "to_bytes", "conjugate", "real", "imag", "as_integer_ratio", "hex", "numerator", "denominator"}


class ABytes(list):
    """a bytearray whose octets may be abstract"""


def is_abs(v):
    return isinstance(v, (Res, AObj))


def pytype_of(v):
    if isinstance(v, AObj):
        return v.pytype
    if isinstance(v, Sym):
        return v.pytype
    if isinstance(v, Res):
        t = {"float": "float", "int": "int", "str": "str", "round": "int", "datetime": "datetime", "len": "int", "Decimal": "Decimal", "strptime": "datetime"}.get(v.op)
        if t is None and getattr(v, "pytype", None):
            return v.pytype
        if t is None and v.op in ("Mult", "Add", "Sub", "Div", "Pow", "USub", "FloorDiv", "Mod") and v.args:
            ts = [pytype_of(a) for a in v.args]
            if any(x in (None, "str", "NoneType") or x not in ("int", "float", "Decimal", "bool") for x in ts):
                return None
            if v.op == "Div" and "Decimal" not in ts:
                return "float"
            return "Decimal" if "Decimal" in ts else "float" if "float" in ts else "int"
        return t
    return type(v).__name__


class AbsEval(ConstEval):
    def __init__(self, model, hooks=None, unequal=()):
        super().__init__(model)
        self.hooks = hooks or {}  # dotted-name suffix -> callable(args, kw) for external / summarised callees
        self.unequal = {frozenset(p) for p in unequal}  # pairs of terms known to differ in the abstract input
        self.log = []
        self.func_hooks = {}  # (module, function name) -> callable(args, kw): summarised repository callee (e.g. a decoder oracle)

    # ------------------------------------------------------------------ truth / operators on terms
    def truth(self, v):
        if isinstance(v, Res):
            return self.branch(v, None)
        if isinstance(v, AObj):
            return True
        if isinstance(v, FuncRef) or (isinstance(v, Opaque) and (v.what == "lambda" or v.what.startswith("class "))) or (isinstance(v, tuple) and v and v[0] in ("partial", "getter", "boundfunc")):
            return True
        return super().truth(v)

    def definite_raise(self, cls, text):
        raise AbsRaise(cls, text)

    def branch(self, term, node):
        """truth value of a condition on abstract values: decided by the oracle of the caller (a valuation of the predicates it enumerates),
        otherwise the evaluation stops with SymbolicBranch"""
        orc = self.__dict__.get("oracle")
        if orc is not None:
            r = orc(term)
            if r is not None:
                try:
                    self.__dict__.setdefault("assumed", {})[term] = bool(r)
                except TypeError:
                    pass
                return bool(r)
        raise SymbolicBranch(term, node)

    def binop(self, op, a, b):
        if isinstance(a, Res) or isinstance(b, Res):
            if isinstance(op, ast.Add):
                ta, tb = pytype_of(a) if isinstance(a, Res) else type(a).__name__, pytype_of(b) if isinstance(b, Res) else type(b).__name__
                texty, numy = ("str", "bytes"), ("int", "float", "Decimal", "datetime", "bool", "NoneType")
                if (ta in texty and tb in numy) or (tb in texty and ta in numy):
                    raise AbsRaise("TypeError", f"can only concatenate {ta if ta in texty else tb} (not {tb if ta in texty else ta!r}) to it")
            return Res(type(op).__name__, a, b)
        if isinstance(a, AObj) or isinstance(b, AObj):
            raise AbsRaise("TypeError", f"operator on {a!r}, {b!r}")
        if (a is None or b is None):
            raise AbsRaise("TypeError", f"operator {type(op).__name__} with None")
        return super().binop(op, a, b)

    def compare(self, op, a, b, node):
        if isinstance(op, (ast.Is, ast.IsNot)):
            same = a is b or (a is None and b is None) or (isinstance(a, Res) and a == b)
            if (a is None) != (b is None):
                other = b if a is None else a
                if isinstance(other, Res) and other.op.startswith("attr:"):
                    # an attribute of a library value (datetime.tzinfo, ...) can be None: not decided by the term
                    r_ = self.branch(Res("IsNone", other), node)
                    return r_ if isinstance(op, ast.Is) else not r_
                same = False
            return same if isinstance(op, ast.Is) else not same
        if isinstance(op, (ast.In, ast.NotIn)) and isinstance(a, Res) and isinstance(b, (dict, list, tuple, set, frozenset, str)):
            if not isinstance(b, str) and any(x is a or (isinstance(x, Res) and x == a) for x in b):
                return isinstance(op, ast.In)
            r_ = self.branch(Res("In", a, repr(b)[:40]), node)
            return r_ if isinstance(op, ast.In) else not r_
        if isinstance(op, (ast.Lt, ast.LtE, ast.Gt, ast.GtE)) and isinstance(a, Res) and isinstance(b, Res) and pytype_of(a) == "datetime" and pytype_of(b) == "datetime" and a != b:
            # two date-times of independent origin: one can be naive (deviation not specified) and the other aware
            self.may_raise("TypeError", node, "ordering comparison of two date-times, one of which can be naive and the other offset-aware")
        if isinstance(a, Res) or isinstance(b, Res):
            if isinstance(op, (ast.Eq, ast.NotEq)):
                if a == b:
                    return isinstance(op, ast.Eq)
                if frozenset((a, b)) in self.unequal or not (isinstance(a, Res) and isinstance(b, Res)) and (a is None or b is None):
                    return isinstance(op, ast.NotEq)
                if isinstance(a, Res) != isinstance(b, Res):
                    other = b if isinstance(a, Res) else a
                    s = a if isinstance(a, Res) else b
                    t = pytype_of(s)
                    if t is not None and type(other).__name__ != t and not (t in ("int", "float") and isinstance(other, (int, float))):
                        return isinstance(op, ast.NotEq)  # values of different types are unequal
            return self.branch(Res(type(op).__name__, a, b), node)
        if isinstance(op, (ast.In, ast.NotIn)) and is_abs(a):
            return self.branch(Res(type(op).__name__, a, repr(b)[:40]), node)
        if isinstance(a, AObj) or isinstance(b, AObj):
            if isinstance(op, (ast.Eq, ast.NotEq)):
                return (a is b) == isinstance(op, ast.Eq)
            raise AbsRaise("TypeError", "ordering of objects")
        return None

    # ------------------------------------------------------------------ expressions
    def eval(self, e, env, mod):
        if isinstance(e, ast.Compare):
            left = self.eval(e.left, env, mod)
            for op, c in zip(e.ops, e.comparators):
                right = self.eval(c, env, mod)
                r = self.compare(op, left, right, e)
                if r is None:
                    from sa.consteval import CMPOPS
                    if isinstance(left, Opaque) or isinstance(right, Opaque):
                        raise NotConstant("compare opaque")
                    try:
                        r = CMPOPS[type(op)](left, right)
                    except TypeError as ex:
                        raise AbsRaise("TypeError", str(ex))
                    except Exception as ex:
                        raise NotConstant(f"compare failed: {ex}")
                if not isinstance(r, bool) and len(e.ops) == 1:
                    return r  # a symbolic truth value (an engine-specific predicate object)
                if not (self.truth(r) if not isinstance(r, bool) else r):
                    return False
                left = right
            return True
        if isinstance(e, ast.Attribute):
            if e.attr == "this" and isinstance(e.value, ast.Name) and e.value.id == "construct" and "this" in env:
                return env["this"]  # construct's lazy context expression, evaluated on the abstract context
            if isinstance(e.value, ast.Call) and isinstance(e.value.func, ast.Name) and e.value.func.id == "super" and not e.value.args:
                obj = env.get("self")
                if isinstance(obj, AObj) and obj.cls_key is not None:
                    for k in self.M.mro(obj.cls_key)[1:]:
                        cn, ck = self.M.find_const(k, e.attr)
                        if cn is not None:
                            return self.class_const(ck[0], ck[1], e.attr)
                raise NotConstant(f"super().{e.attr}")
            base = self.eval(e.value, env, mod)
            if isinstance(base, AObj):
                if e.attr in base.attrs:
                    return base.attrs[e.attr]
                if base.cls_key is not None:
                    m = self.M.find_method(base.cls_key, e.attr)
                    if m is not None and m.kind == "property":
                        v_ = self.call_func(FuncRef(m.mod, m.node), [base])
                        if m.memo:
                            base.attrs[e.attr] = v_  # cached_property: the value lands in the instance dictionary and shadows the descriptor from now on
                        return v_
                    if m is not None:
                        return ("boundfunc", base, m)
                    cn, ck = self.M.find_const(base.cls_key, e.attr)
                    if cn is not None:
                        return self.class_const(ck[0], ck[1], e.attr)
                raise AbsRaise("AttributeError", f"{base!r} has no attribute {e.attr}")
            if isinstance(base, Res):
                t = pytype_of(base)
                if t == "str" and e.attr in ("lower", "upper", "strip", "startswith", "endswith", "split", "isdigit", "casefold"):
                    return ("boundmethod", base, e.attr)
                if t in ("datetime", "Decimal") or (t in ("float", "int") and e.attr in NUM_ATTRS):
                    return Res("attr:" + e.attr, base)  # attribute of an opaque library value: stays a term
                raise AbsRaise("AttributeError", f"{t or 'value'} {base!r} has no attribute {e.attr}")
            if base is None:
                raise AbsRaise("AttributeError", f"None has no attribute {e.attr}")
            if isinstance(base, Opaque) and base.what in ("external math", "external calendar"):
                return super().eval(e, env, mod)
            if isinstance(base, Opaque) and (base.what.startswith("external") or "_LOGGER" in base.what or "getLogger" in base.what):
                return Opaque(f"external {e.attr}")
            return super().eval(e, env, mod)
        if isinstance(e, ast.Subscript):
            base = self.eval(e.value, env, mod)
            if isinstance(base, Res):
                if isinstance(e.slice, ast.Slice):
                    return Res("slice", base, self.eval(e.slice.lower, env, mod) if e.slice.lower else None, self.eval(e.slice.upper, env, mod) if e.slice.upper else None)
                k = self.eval(e.slice, env, mod)
                if isinstance(k, slice) and k.step is None:
                    return Res("slice", base, k.start, k.stop)
                return Res("sub", base, k)
            if not isinstance(e.slice, ast.Slice) and isinstance(base, (list, tuple, dict, str, bytes)):
                k = self.eval(e.slice, env, mod)
                if isinstance(k, Res) and isinstance(base, dict):
                    if k in base:
                        return base[k]
                    if any(v_ and isinstance(t_, Res) and t_.op == "In" and t_.args and t_.args[0] == k for t_, v_ in self.__dict__.get("assumed", {}).items()):
                        return Res("lookup", k)  # membership was assumed on this valuation
                    raise AbsRaise("KeyError", repr(k))
                if isinstance(k, Res):
                    raise SymbolicBranch(Res("index", k), e)
                try:
                    return base[k]
                except IndexError:
                    raise AbsRaise("IndexError", f"index {k}")
                except KeyError:
                    raise AbsRaise("KeyError", repr(k))
                except TypeError as ex:
                    raise AbsRaise("TypeError", str(ex))
            if base is None:
                raise AbsRaise("TypeError", "None is not subscriptable")
            if isinstance(base, AObj) and base.pytype == "Container" and not isinstance(e.slice, ast.Slice):
                k = self.eval(e.slice, env, mod)
                if isinstance(k, str):
                    if k in base.attrs:
                        return base.attrs[k]
                    raise AbsRaise("KeyError", k)
            if isinstance(base, AObj) and base.pytype == "Match" and not isinstance(e.slice, ast.Slice):
                return base.attrs["group"](self.eval(e.slice, env, mod))
            if isinstance(base, AObj) and getattr(base, "fields", None) and not isinstance(e.slice, ast.Slice):
                k = self.eval(e.slice, env, mod)
                if isinstance(k, int) and not isinstance(k, bool):
                    if -len(base.fields) <= k < len(base.fields):
                        return base.attrs[base.fields[k]]
                    raise AbsRaise("IndexError", f"record index {k}")
            return super().eval(e, env, mod)
        if isinstance(e, ast.UnaryOp):
            v = self.eval(e.operand, env, mod)
            if isinstance(v, Res):
                if isinstance(e.op, ast.Not):
                    return not self.branch(v, e)
                return Res(type(e.op).__name__, v)
            if isinstance(v, AObj) and isinstance(e.op, ast.Not):
                return False
            return super().eval(e, env, mod)
        if isinstance(e, ast.JoinedStr):
            parts, sym = [], False
            for v in e.values:
                if isinstance(v, ast.Constant):
                    parts.append(str(v.value))
                else:
                    x = self.eval(v.value, env, mod)
                    sym = sym or is_abs(x)
                    parts.append(x if is_abs(x) else format(x, self.eval(v.format_spec, env, mod) if v.format_spec else "") if isinstance(x, (int, float, str, bool, type(None))) else Res("fmt", repr(x)))
            if sym:
                return Res("fstr", *parts)
            return "".join(parts)
        if isinstance(e, ast.GeneratorExp):
            return self.comprehension(e, env, mod)
        if isinstance(e, ast.NamedExpr) and isinstance(e.target, ast.Name):
            v = self.eval(e.value, env, mod)
            env[e.target.id] = v
            return v
        if isinstance(e, ast.Name) and e.id not in env:
            try:
                return super().eval(e, env, mod)
            except NotConstant:
                if e.id in ("isinstance", "hasattr", "getattr", "next", "iter", "cast", "print", "type", "ValueError", "TypeError", "KeyError", "IndexError", "Exception", "AttributeError", "datetime", "Decimal"):
                    return Opaque(f"builtin {e.id}")
                raise
        return super().eval(e, env, mod)

    def eval_args(self, e, env, mod):
        out = []
        for a in e.args:
            if isinstance(a, ast.Starred):
                v = self.eval(a.value, env, mod)
                if isinstance(v, AObj) and getattr(v, "fields", None):
                    v = [v.attrs[f_] for f_ in v.fields]
                if isinstance(v, Res) or not isinstance(v, (list, tuple)):
                    raise NotConstant("star-argument that is not a concrete sequence")
                out.extend(v)
            else:
                out.append(self.eval(a, env, mod))
        return out

    # ------------------------------------------------------------------ calls
    def call(self, e, env, mod):
        ftxt = ast.unparse(e.func)
        # calls through values: table[key](x), (f or g)(x), a local holding a function
        if ftxt.split(".")[-1] == "partial" and e.args and not e.keywords and (not isinstance(e.func, ast.Name) or e.func.id not in env or isinstance(env[e.func.id], Opaque)):
            vals_ = self.eval_args(e, env, mod)
            return ("partial", vals_[0], tuple(vals_[1:]))
        if not isinstance(e.func, (ast.Name, ast.Attribute)) or (isinstance(e.func, ast.Name) and e.func.id in env and (not isinstance(env[e.func.id], Opaque) or env[e.func.id].what == "lambda")):
            f = self.eval(e.func, env, mod)
            if isinstance(f, FuncRef) or (isinstance(f, Opaque) and f.what == "lambda") or (isinstance(f, tuple) and f and f[0] in ("boundfunc", "getter", "partial")) or f in (float, int, str, bool, len, abs, bytes):
                if isinstance(f, FuncRef):
                    return self.call_func(f, self.eval_args(e, env, mod), {k.arg: self.eval(k.value, env, mod) for k in e.keywords if k.arg})
                return self.apply_value(f, self.eval_args(e, env, mod), mod)
        if ftxt.startswith(("_LOGGER.", "logging.", "_logger.")):
            for a in e.args[1:]:
                self.eval(a, env, mod)  # arguments are evaluated (they can raise)
            return None
        for suffix, h in self.hooks.items():
            if ftxt == suffix or ftxt.endswith("." + suffix):
                args = self.eval_args(e, env, mod)
                kw = {k.arg: self.eval(k.value, env, mod) for k in e.keywords if k.arg}
                return h(args, kw)
        name = ftxt.split(".")[-1]
        if name in ("attrgetter", "itemgetter") and e.args and not e.keywords and (not isinstance(e.func, ast.Name) or e.func.id not in env or isinstance(env[e.func.id], Opaque)):
            keys = self.eval_args(e, env, mod)
            if all(isinstance(k, (str, int)) for k in keys):
                return ("getter", name, tuple(keys))
        if ftxt == "dict.fromkeys" and 1 <= len(e.args) <= 2 and "dict" not in env:
            keys = self.eval(e.args[0], env, mod)
            val = self.eval(e.args[1], env, mod) if len(e.args) == 2 else None
            if isinstance(keys, (list, tuple, str, dict, set, frozenset, range)):
                return {k: val for k in keys}
            raise NotConstant("dict.fromkeys over a non-concrete iterable")
        if ftxt in ("datetime.strptime", "datetime.datetime.strptime") and len(e.args) == 2 and not e.keywords:
            args = self.eval_args(e, env, mod)
            if any(is_abs(a) for a in args) and isinstance(args[1], str):
                return _typed(Res("strptime", args[0], args[1]), "datetime")
        if name == "auto" and not e.args and not e.keywords and (not isinstance(e.func, ast.Name) or e.func.id not in env or isinstance(env[e.func.id], Opaque)):
            return Res("enum-auto", mod, e.lineno)  # enum.auto(): a value distinct from every other member's
        if name == "reduce" and 2 <= len(e.args) <= 3:
            f = self.eval(e.args[0], env, mod)
            items = self.eval(e.args[1], env, mod)
            if isinstance(items, Res) or not isinstance(items, (list, tuple, str, bytes, range)):
                raise NotConstant("reduce over a non-concrete iterable")
            items = list(items)
            if len(e.args) == 3:
                acc = self.eval(e.args[2], env, mod)
            elif items:
                acc, items = items[0], items[1:]
            else:
                raise AbsRaise("TypeError", "reduce() of empty iterable with no initial value")
            for x in items:
                acc = self.apply_value(f, [acc, x], mod)
            return acc
        if isinstance(e.func, ast.Attribute) and isinstance(e.func.value, ast.Call) and isinstance(e.func.value.func, ast.Name) and e.func.value.func.id == "super" and not e.func.value.args:
            # super().m(...): the next definition of m after the object's own class in the repository MRO (external bases: no effect)
            obj = env.get("self")
            args = self.eval_args(e, env, mod)
            if isinstance(obj, AObj) and obj.cls_key is not None:
                mro = self.M.mro(obj.cls_key)
                # the search starts after the class that defines the method being executed (not after the object's own class)
                start = 1
                cur = self.__dict__.get("_fstack") or []
                if cur:
                    for i_, k in enumerate(mro):
                        c_ = self.M.classes.get(k)
                        if c_ is not None and any(f_.node is cur[-1] for f_ in c_.methods.values()):
                            start = i_ + 1
                            break
                kw = {k_.arg: self.eval(k_.value, env, mod) for k_ in e.keywords if k_.arg}
                for k in mro[start:]:
                    m = self.M.classes[k].methods.get(e.func.attr) if k in self.M.classes else None
                    if m is not None:
                        return self.call_func(FuncRef(m.mod, m.node), [obj] + args, kw)
            return None
        if isinstance(e.func, ast.Attribute):
            # method on an abstract value
            base = self.eval(e.func.value, env, mod)
            if isinstance(base, Opaque) and base.what.startswith("class ") and "." in base.what[6:]:
                cm, cn = base.what[6:].split(".", 1)
                fm = self.M.find_method((cm, cn), e.func.attr)
                if fm is not None and fm.kind in ("classmethod", "static", "method"):
                    args = self.eval_args(e, env, mod)
                    kw = {k.arg: self.eval(k.value, env, mod) for k in e.keywords if k.arg}
                    first = [base] if fm.kind == "classmethod" else []
                    return self.call_func(FuncRef(fm.mod, fm.node), first + args, kw)
            if e.func.attr in ("match", "fullmatch", "search") and isinstance(base, Opaque):
                pat = self.regex_of(base, mod)
                if pat is not None:
                    return self.regex_call(pat, e.func.attr, self.eval_args(e, env, mod))
            args = self.eval_args(e, env, mod)
            if isinstance(base, AObj) and e.func.attr == "_replace" and getattr(base, "fields", None):
                kw = {k.arg: self.eval(k.value, env, mod) for k in e.keywords if k.arg}
                new = AObj(base.pytype, dict(base.attrs), name=base.name, cls_key=base.cls_key)
                new.fields = list(base.fields)
                new.attrs.update(kw)
                return new
            if isinstance(base, AObj):
                m = base.attrs.get(e.func.attr)
                if callable(m):
                    return m(*args)
                if isinstance(m, FuncRef) or (isinstance(m, Opaque) and m.what == "lambda") or (isinstance(m, tuple) and m and m[0] in ("boundfunc", "partial", "getter")):
                    # a callable kept in an instance attribute (a bound method selected in the constructor, a lambda, a partial)
                    return self.apply_value(m, args, mod)
                if e.func.attr in base.attrs and m is not None and not isinstance(m, (int, float, str, bytes, bool, list, dict, tuple, set, bytearray)):
                    raise NotConstant(f"call of the instance attribute {e.func.attr} ({m!r}) is outside the interpreter's summaries")
                if base.cls_key is not None:
                    fm = self.M.find_method(base.cls_key, e.func.attr)
                    if fm is not None and fm.kind in ("method", "static", "classmethod"):
                        kw = {k.arg: self.eval(k.value, env, mod) for k in e.keywords if k.arg}
                        return self.call_func(FuncRef(fm.mod, fm.node), ([base] if fm.kind == "method" else [Opaque(f"class {fm.mod}.{fm.cls}")] if fm.kind == "classmethod" else []) + args, kw)
                raise AbsRaise("AttributeError", f"{base!r} has no method {e.func.attr}")
            if isinstance(base, Res):
                if pytype_of(base) == "str" and e.func.attr in ("lower", "upper", "strip", "casefold"):
                    return Sym(f"{e.func.attr}({base!r})", "str") if False else _typed(Res(e.func.attr, base), "str")
                if pytype_of(base) == "str" and e.func.attr in ("startswith", "endswith", "isdigit"):
                    return self.branch(Res(e.func.attr, base, *args), e)
                if pytype_of(base) in ("datetime", "Decimal") or (pytype_of(base) in ("float", "int") and e.func.attr in NUM_ATTRS):
                    kw = {k.arg: self.eval(k.value, env, mod) for k in e.keywords if k.arg}
                    return Res("method:" + e.func.attr, base, *args, *[Res("kw:" + k, v) for k, v in sorted(kw.items())])
                raise AbsRaise("AttributeError", f"{base!r}.{e.func.attr}")
            if base is None:
                raise AbsRaise("AttributeError", f"None.{e.func.attr}")
            if isinstance(base, dict) and e.func.attr == "get" and args and isinstance(args[0], Res):
                return base.get(args[0], args[1] if len(args) > 1 else None)
            if isinstance(base, str) and e.func.attr == "join" and len(args) == 1 and isinstance(args[0], (list, tuple)) and any(is_abs(a) for a in args[0]):
                return Res("join", base, list(args[0]))
            if isinstance(base, (list, dict, str, tuple, set, bytes, bytearray)) and any(is_abs(a) for a in args):
                if e.func.attr in ("append", "add", "extend", "insert", "update", "setdefault", "index", "count"):
                    try:
                        return getattr(base, e.func.attr)(*args)
                    except Exception as ex:
                        raise AbsRaise(type(ex).__name__, str(ex))
                if isinstance(base, str) and e.func.attr == "join":
                    return Res("join", base, *args)
        if name in ("isinstance", "hasattr", "getattr", "next", "iter", "cast", "float", "int", "str", "round", "len", "bool", "abs", "datetime", "Decimal", "min", "max", "any", "all", "list", "tuple", "type", "divmod", "pow", "hash", "bytes", "bytearray", "memoryview"):
            f = None
            if isinstance(e.func, ast.Name) and (e.func.id in env):
                f = env[e.func.id]
            if not isinstance(f, FuncRef):
                args = self.eval_args(e, env, mod)
                kw = {k.arg: self.eval(k.value, env, mod) for k in e.keywords if k.arg}
                r = self.builtin(name, args, kw, e)
                if r is not NotImplemented:
                    return r
        if name in ("ValueError", "TypeError", "KeyError", "IndexError", "Exception", "AttributeError", "OverflowError", "RuntimeError", "NotImplementedError"):
            return ("exception", name)
        # instantiation of a repository class: an abstract object initialised by the class's own __init__
        try:
            fv = self.eval(e.func, env, mod) if isinstance(e.func, (ast.Name, ast.Attribute)) else None
        except (NotConstant, AbsRaise):
            fv = None
        br = self.bound_regex_of(fv, mod)
        if br is not None and not e.keywords:
            # a bound method of a compiled pattern kept under a name (`_match = _pattern.match`)
            return self.regex_call(br[0], br[1], self.eval_args(e, env, mod))
        if isinstance(fv, Opaque) and fv.what.startswith("class ") and "." in fv.what[6:]:
            cm, cn = fv.what[6:].split(".", 1)
            if (cm, cn) in self.M.classes:
                args = self.eval_args(e, env, mod)
                kw = {k.arg: self.eval(k.value, env, mod) for k in e.keywords if k.arg}
                return self.instantiate((cm, cn), args, kw)
        try:
            return super().call(e, env, mod)
        except BuiltinRaised as ex:
            raise AbsRaise(ex.cls, str(ex))
        except NotConstant as ex:
            if str(ex).startswith("call of <opaque external ") and self.__dict__.get("external_calls_opaque") and not self._active:
                # (not while a module body is being evaluated: module-level names bound to library objects keep their defining statement, e.g. compiled patterns)
                # a library constructor / function (asyncio.Future(), ...): an unknown library value with no effect on repository objects
                return Opaque("external " + str(ex)[len("call of <opaque external "):].rstrip(">") + "()")
            if "opaque argument" in str(ex) or "builtin failed" in str(ex):
                raise NotConstant(f"call {ftxt} with abstract arguments is outside the interpreter's summaries")
            raise

    def instantiate(self, ck, args, kw=None):
        """an abstract object of repository class ck initialised by the class's own __init__ (records: by their field list)"""
        cm, cn = ck
        kw = kw or {}
        if True:
            if True:
                obj = AObj(cn, {}, cls_key=(cm, cn))
                init = self.M.find_method((cm, cn), "__init__")
                if init is not None:
                    self.call_func(FuncRef(init.mod, init.node), [obj] + args, kw)
                else:
                    # NamedTuple / dataclass style record: fields are the annotated names of the class body, in order, with their defaults
                    cnode = self.M.classes[(cm, cn)].node
                    fields = [(s_.target.id, s_.value) for s_ in cnode.body if isinstance(s_, ast.AnnAssign) and isinstance(s_.target, ast.Name)]
                    if not fields and (args or kw):
                        raise NotConstant(f"constructor of {cn} with arguments but no __init__ / fields")
                    if len(args) > len(fields):
                        raise AbsRaise("TypeError", f"{cn}() takes {len(fields)} positional arguments")
                    for i, (fname, dflt) in enumerate(fields):
                        if i < len(args):
                            obj.attrs[fname] = args[i]
                        elif fname in kw:
                            obj.attrs[fname] = kw[fname]
                        elif dflt is not None:
                            obj.attrs[fname] = self.eval(dflt, {}, cm)
                        else:
                            raise AbsRaise("TypeError", f"{cn}() missing argument {fname}")
                    obj.fields = [f_ for f_, _ in fields]
                return obj

    def may_raise(self, cls, node, text):
        """record that the operation at `node` can raise `cls` for some value of its abstract operand, unless a handler of an enclosing try
        (dynamically: across calls) covers the class"""
        for names in self.__dict__.get("try_stack", []):
            if _exc_matches(cls, list(names)):
                return
        log = self.__dict__.setdefault("may", [])
        item = (cls, getattr(node, "lineno", 0), text)
        if item not in log:
            log.append(item)

    def regex_of(self, v, mod):
        """pattern string of a module-level compiled regex (an Opaque whose initialiser is `<...>compile(<constant pattern>)`)"""
        if isinstance(v, Opaque) and isinstance(v.node, (ast.Assign, ast.AnnAssign)) and isinstance(v.node.value, ast.Call) and "compile" in ast.unparse(v.node.value.func) \
                and v.node.value.args and len(v.node.value.args) == 1 and not v.node.value.keywords:
            try:
                p = ConstEval.eval(self, v.node.value.args[0], {}, v.mod or mod)
            except NotConstant:
                return None
            return p if isinstance(p, (str, bytes)) else None
        return None

    def bound_regex_of(self, v, mod):
        """(pattern, method) of a name bound to `<compiled pattern>.match|fullmatch|search`"""
        if isinstance(v, Opaque) and isinstance(v.node, (ast.Assign, ast.AnnAssign)) and isinstance(v.node.value, ast.Attribute) and v.node.value.attr in ("match", "fullmatch", "search"):
            try:
                base = self.eval(v.node.value.value, {}, v.mod or mod)
            except (NotConstant, AbsRaise, SymbolicBranch):
                return None
            pat = self.regex_of(base, v.mod or mod)
            if pat is not None:
                return pat, v.node.value.attr
        return None

    def regex_call(self, pattern, method, args):
        """Python's re applied to a constant pattern of the program and a concrete string: the match as an abstract object"""
        import re
        if args and isinstance(pattern, bytes) and isinstance(args[0], bytearray):
            args = [bytes(args[0])] + list(args[1:])
        if not args or not isinstance(args[0], type(pattern)) or len(args) > 3 or not all(isinstance(a, int) and not isinstance(a, bool) for a in args[1:]):
            if args and (args[0] is None or isinstance(args[0], (int, float, AObj)) or (isinstance(args[0], (str, bytes)) and not isinstance(args[0], type(pattern)))):
                raise AbsRaise("TypeError", "expected string")
            if args and isinstance(args[0], Res):
                raise SymbolicBranch(Res("regex-" + method, pattern, args[0]), None)
            raise NotConstant("regex applied to a non-concrete string")
        m = getattr(re.compile(pattern), method)(*args)
        if m is None:
            return None

        def group(*names):
            try:
                r = m.group(*names)
            except (IndexError, error_cls) as ex:  # noqa
                raise AbsRaise("IndexError", str(ex))
            return r
        error_cls = re.error
        return AObj("Match", {"group": group, "groupdict": (lambda: dict(m.groupdict())), "groups": (lambda: m.groups()), "start": m.start, "end": m.end, "span": m.span,
                              "string": m.string, "pos": m.pos, "endpos": m.endpos, "lastgroup": m.lastgroup, "lastindex": m.lastindex, "expand": m.expand})

    def builtin(self, name, args, kw, node):
        a0 = args[0] if args else None
        if name == "memoryview" and len(args) == 1 and not kw:
            # read-only view: indexing, slicing and len() agree with the viewed object
            if isinstance(a0, (tuple, list, bytes, bytearray, ABytes)):
                return tuple(a0) if isinstance(a0, list) else bytes(a0) if isinstance(a0, bytearray) else a0
            raise NotConstant("memoryview of a value that is not an octet string")
        if name in ("bytes", "bytearray") and self.__dict__.get("abstract_bytes") and not kw:
            # octet strings with abstract elements are lists (bytearray) / tuples (bytes) of octet values
            if not args:
                return ABytes() if name == "bytearray" else ()
            if len(args) == 1 and isinstance(a0, (list, tuple)) and any(is_abs(x) for x in a0) or isinstance(a0, ABytes):
                return ABytes(a0) if name == "bytearray" else tuple(a0)
        if name in ("int", "float", "str") and args and not any(is_abs(a) for a in args) and all(isinstance(a, (int, float, str, bool, bytes)) for a in list(args) + list((kw or {}).values())):
            try:
                return {"int": int, "float": float, "str": str}[name](*args, **(kw or {}))
            except (ValueError, TypeError, OverflowError) as ex:
                raise AbsRaise(type(ex).__name__, str(ex))
        if name == "hash" and len(args) == 1:
            return Res("hash", a0)
        if name == "isinstance" and len(args) == 2:
            t = pytype_of(a0)
            want = args[1]
            names = []
            for w in (want if isinstance(want, tuple) else (want,)):
                names.append(getattr(w, "__name__", None) or (w.what.split()[-1].split(".")[-1] if isinstance(w, Opaque) else str(w)))
            if t is None:
                raise SymbolicBranch(Res("isinstance", a0, tuple(names)), node)
            if t == "bool" and "int" in names:
                return True
            return t in names
        if name == "hasattr" and len(args) == 2:
            if isinstance(a0, AObj):
                return args[1] in a0.attrs
            if isinstance(a0, Res):
                return False if pytype_of(a0) in ("int", "str", "float") else (_ for _ in ()).throw(SymbolicBranch(Res("hasattr", a0, args[1]), node))
            return hasattr(a0, args[1]) if isinstance(a0, (int, str, float, bytes, type(None), list, dict, tuple)) else NotImplemented
        if name == "getattr" and len(args) >= 2 and isinstance(a0, AObj):
            if args[1] in a0.attrs:
                return a0.attrs[args[1]]
            if len(args) == 3:
                return args[2]
            raise AbsRaise("AttributeError", args[1])
        if name == "getattr" and len(args) >= 2 and isinstance(args[1], str) and isinstance(a0, (str, int, float, bytes, tuple, list, dict, type(None), bool)):
            if not hasattr(a0, args[1]):
                if len(args) == 3:
                    return args[2]
                raise AbsRaise("AttributeError", args[1])
        if name == "getattr" and len(args) >= 2 and isinstance(args[1], str) and isinstance(a0, Res) and pytype_of(a0) in ("int", "str", "float"):
            # a symbolic number / text: only the attributes of its Python type exist
            if not hasattr({"int": int, "str": str, "float": float}[pytype_of(a0)], args[1]):
                if len(args) == 3:
                    return args[2]
                raise AbsRaise("AttributeError", args[1])
        if name == "cast" and len(args) == 2:
            return args[1]
        if name == "type" and len(args) == 1:
            t = a0[1] if isinstance(a0, tuple) and len(a0) == 2 and a0[0] == "exception" else pytype_of(a0)
            return AObj("type", {"__name__": t or "object", "__qualname__": t or "object"})
        if name == "iter" and len(args) == 1 and isinstance(a0, (list, tuple)):
            return list(a0)
        if name == "next":
            if isinstance(a0, list):
                if a0:
                    return a0[0]
                if len(args) > 1:
                    return args[1]
                raise AbsRaise("StopIteration", "next() on an empty iterator")
            return NotImplemented
        if name in ("float", "int", "str", "round", "abs", "bool", "Decimal") and args and isinstance(a0, Res):
            if name == "bool":
                return self.branch(a0, node)
            if name == pytype_of(a0) and len(args) == 1:
                return a0
            # partial operations on abstract values: what they can raise for some value of their class (recorded unless a handler on the dynamic
            # try stack covers it)
            t0 = pytype_of(a0)
            if name in ("float", "int") and t0 in ("str", None):
                self.may_raise("ValueError", node, f"{name}() of wire text")
            if name in ("int", "round") and t0 == "float" and _has_text_float(a0):
                self.may_raise("OverflowError", node, f"{name}() of a float that can be infinite ('inf' or a huge exponent in the transmitted text)")
                self.may_raise("ValueError", node, f"{name}() of a float that can be NaN")
            if name == "Decimal" and t0 in ("str", None):
                self.may_raise("InvalidOperation", node, "Decimal() of wire text")
            if name == "int" and t0 == "Decimal":
                self.may_raise("OverflowError", node, "int() of a Decimal that can be infinite")
                self.may_raise("ValueError", node, "int() of a Decimal that can be NaN")
            return _typed(Res(name, *args), {"Decimal": "Decimal", "abs": pytype_of(a0), "round": "int" if len(args) == 1 else "float"}.get(name, name))
        if name in ("float", "int") and args and (a0 is None or isinstance(a0, AObj)):
            raise AbsRaise("TypeError", f"{name}() of {a0!r}")
        if name == "bool" and len(args) == 1 and isinstance(a0, AObj) and not kw:
            # truth of an object: its __bool__ / __len__ when the class defines one, else True
            if a0.cls_key is not None:
                for mn_ in ("__bool__", "__len__"):
                    bm = self.M.find_method(a0.cls_key, mn_)
                    if bm is not None:
                        return bool(self.call_func(FuncRef(bm.mod, bm.node), [a0]))
            return True
        if name == "len" and len(args) == 1:
            if isinstance(a0, Res):
                return _typed(Res("len", a0), "int")
            if isinstance(a0, AObj) and a0.cls_key is not None:
                lm = self.M.find_method(a0.cls_key, "__len__")
                if lm is not None:
                    return self.call_func(FuncRef(lm.mod, lm.node), [a0])
            if a0 is None or isinstance(a0, AObj) or isinstance(a0, (int, float)):
                raise AbsRaise("TypeError", f"len() of {a0!r}")
            return NotImplemented
        if name == "datetime":
            if any(is_abs(a) for a in args):
                self.may_raise("ValueError", node, "datetime() of fields that can be out of range")
            return _typed(Res("datetime", *args, *[Res("kw:" + k, v) for k, v in sorted(kw.items())]), "datetime")
        if name in ("min", "max", "divmod", "pow") and any(is_abs(a) for a in args):
            return Res(name, *args)
        if name == "Decimal" and len(args) == 1:
            return _typed(Res("Decimal", a0), "Decimal")
        return NotImplemented

    # ------------------------------------------------------------------ statements
    def exec_stmt(self, s, env, mod):
        if isinstance(s, ast.Raise):
            if s.exc is None:
                raise AbsRaise("reraise")
            v = self.eval(s.exc, env, mod) if not isinstance(s.exc, ast.Call) else None
            cls = ast.unparse(s.exc.func if isinstance(s.exc, ast.Call) else s.exc).split(".")[-1]
            if isinstance(s.exc, ast.Call):
                fname = s.exc.func.id if isinstance(s.exc.func, ast.Name) else None
                if fname and self.M.funcs.get(f"{mod}.{fname}") is not None:
                    # raise helper(...): the exception object a repository function builds
                    hv = self.eval(s.exc, env, mod)
                    if isinstance(hv, tuple) and len(hv) == 2 and hv[0] == "exception":
                        raise AbsRaise(hv[1])
                    raise NotConstant(f"raise of the value of {fname}(), which is not a recognised exception object")
                for a in s.exc.args:
                    self.eval(a, env, mod)
            elif isinstance(v, tuple) and len(v) == 2 and v[0] == "exception":
                cls = v[1]
            raise AbsRaise(cls)
        if isinstance(s, ast.Assert):
            if not self.truth(self.eval(s.test, env, mod)):
                if self.__dict__.get("assert_failures_are_real"):
                    raise AbsRaise("AssertionError")
                # the interpreter's objects are abstractions (cloned tables, symbolic registers): an `assert` that does not hold on them is not a proof that it
                # fails in the program - the evaluation stops undecided instead of reporting an AssertionError of its own making
                raise NotConstant(f"assert {ast.unparse(s.test)[:80]} is not established on the abstract values")
            return
        if isinstance(s, ast.Try):
            import builtins as _bi
            for h in s.handlers:
                for x in ((h.type.elts if isinstance(h.type, ast.Tuple) else [h.type]) if h.type is not None else []):
                    if isinstance(x, ast.Name) and not hasattr(_bi, x.id) and x.id not in self.M.imports.get(mod, {}) and (mod, x.id) not in self.M.classes:
                        # a name that is neither a built-in exception, nor imported, nor a class of the module (e.g. a computed tuple of classes): which exceptions it catches is not known
                        raise NotConstant(f"except clause names `{x.id}`, which the interpreter cannot resolve to exception classes")
            hn = tuple(n_ for h in s.handlers for n_ in ([ast.unparse(x).split(".")[-1] for x in (h.type.elts if isinstance(h.type, ast.Tuple) else [h.type])] if h.type is not None else ["BaseException"]))
            stack = self.__dict__.setdefault("try_stack", [])
            stack.append(hn)
            try:
                try:
                    self.exec_block(s.body, env, mod)
                finally:
                    stack.pop()
            except AbsRaise as ex:
                for h in s.handlers:
                    names = [ast.unparse(x).split(".")[-1] for x in (h.type.elts if isinstance(h.type, ast.Tuple) else [h.type])] if h.type is not None else ["BaseException"]
                    if _exc_matches(ex.cls, names):
                        if h.name:
                            env[h.name] = ("exception", ex.cls)
                        try:
                            self.exec_block(h.body, env, mod)
                        except AbsRaise as ex2:
                            if ex2.cls == "reraise":
                                raise ex
                            raise
                        break
                else:
                    self.exec_block(s.finalbody, env, mod)
                    raise
            else:
                self.exec_block(s.orelse, env, mod)
            self.exec_block(s.finalbody, env, mod)
            return
        if isinstance(s, ast.Delete):
            for t in s.targets:
                if isinstance(t, ast.Name):
                    env.pop(t.id, None)
                else:
                    raise NotConstant("del target")
            return
        if isinstance(s, ast.Match):
            subj = self.eval(s.subject, env, mod)
            for case in s.cases:
                binds = {}
                if self.match_pattern(case.pattern, subj, binds, env, mod):
                    env2 = env
                    env2.update(binds)
                    if case.guard is not None and not self.truth(self.eval(case.guard, env2, mod)):
                        continue
                    self.exec_block(case.body, env2, mod)
                    return
            return
        if isinstance(s, ast.With) and all(isinstance(it.context_expr, ast.Call) and isinstance(it.context_expr.func, ast.Name) and it.context_expr.func.id in ("memoryview", "nullcontext")
                                            for it in s.items):
            for it in s.items:
                v = self.eval(it.context_expr, env, mod) if it.context_expr.func.id == "memoryview" else (self.eval(it.context_expr.args[0], env, mod) if it.context_expr.args else None)
                if it.optional_vars is not None:
                    self.assign(it.optional_vars, v, env, mod)
            self.exec_block(s.body, env, mod)
            return
        if isinstance(s, (ast.With, ast.AsyncWith)):
            suppressed = []
            for it in s.items:
                ce_ = it.context_expr
                txt = ast.unparse(ce_.func) if isinstance(ce_, ast.Call) else ""
                if txt.endswith("suppress"):
                    for a in ce_.args:
                        v = self.eval(a.value if isinstance(a, ast.Starred) else a, env, mod)
                        vs = v if isinstance(v, (tuple, list)) and isinstance(a, ast.Starred) else [v]
                        for x in vs:
                            suppressed.append(x[1] if isinstance(x, tuple) and len(x) == 2 and x[0] == "exception" else (x.what.split()[-1].split(".")[-1] if isinstance(x, Opaque) else str(x)))
                    if it.optional_vars is not None:
                        raise NotConstant("with ... as target")
                else:
                    raise NotConstant(f"with-statement over {ast.unparse(ce_)[:40]}")
            try:
                self.exec_block(s.body, env, mod)
            except AbsRaise as ex:
                if not _exc_matches(ex.cls, suppressed):
                    raise
            return
        if isinstance(s, (ast.Global, ast.Nonlocal)):
            return
        return super().exec_stmt(s, env, mod)

    def match_pattern(self, pat, subj, binds, env, mod):
        """structural pattern matching on concrete values, abstract objects (class patterns by type tag) and terms (captures / wildcard only)"""
        if isinstance(pat, ast.MatchAs):
            if pat.pattern is not None and not self.match_pattern(pat.pattern, subj, binds, env, mod):
                return False
            if pat.name is not None:
                binds[pat.name] = subj
            return True
        if isinstance(pat, ast.MatchOr):
            return any(self.match_pattern(p, subj, binds, env, mod) for p in pat.patterns)
        if isinstance(pat, ast.MatchValue):
            v = self.eval(pat.value, env, mod)
            r = self.compare(ast.Eq(), subj, v, pat)
            if r is None:
                try:
                    r = subj == v
                except Exception:
                    r = False
            return bool(r)
        if isinstance(pat, ast.MatchSingleton):
            return subj is pat.value
        if isinstance(pat, ast.MatchSequence):
            if isinstance(subj, Res):
                raise SymbolicBranch(Res("match-sequence", subj), pat)
            if not isinstance(subj, (list, tuple)) :
                return False
            star = [i for i, p in enumerate(pat.patterns) if isinstance(p, ast.MatchStar)]
            if not star:
                if len(subj) != len(pat.patterns):
                    return False
                return all(self.match_pattern(p, x, binds, env, mod) for p, x in zip(pat.patterns, subj))
            i = star[0]
            after = len(pat.patterns) - i - 1
            if len(subj) < i + after:
                return False
            for p, x in zip(pat.patterns[:i], subj[:i]):
                if not self.match_pattern(p, x, binds, env, mod):
                    return False
            for p, x in zip(pat.patterns[i + 1:], subj[len(subj) - after:] if after else []):
                if not self.match_pattern(p, x, binds, env, mod):
                    return False
            if pat.patterns[i].name:
                binds[pat.patterns[i].name] = list(subj[i:len(subj) - after])
            return True
        if isinstance(pat, ast.MatchClass):
            cls_v = self.eval(pat.cls, env, mod)
            cname = getattr(cls_v, "__name__", None) or (cls_v.what.split()[-1].split(".")[-1] if isinstance(cls_v, Opaque) else (cls_v[1] if isinstance(cls_v, tuple) and len(cls_v) == 2 and cls_v[0] == "exception" else str(cls_v)))
            if isinstance(subj, tuple) and len(subj) == 2 and subj[0] == "exception":
                ok = _exc_matches(subj[1], [cname])
            else:
                t = pytype_of(subj)
                if t is None:
                    raise SymbolicBranch(Res("match-class", subj, cname), pat)
                ok = t == cname or (isinstance(subj, AObj) and subj.cls_key is not None and cname in [k[1] for k in self.M.mro(subj.cls_key)])
            if not ok:
                return False
            if pat.patterns:
                raise NotConstant("positional sub-patterns of a class pattern")
            for k, p in zip(pat.kwd_attrs, pat.kwd_patterns):
                if not (isinstance(subj, AObj) and k in subj.attrs and self.match_pattern(p, subj.attrs[k], binds, env, mod)):
                    return False
            return True
        if isinstance(pat, ast.MatchMapping):
            raise NotConstant("mapping pattern")
        raise NotConstant(f"pattern {type(pat).__name__}")

    def assign(self, tgt, val, env, mod):
        if isinstance(tgt, (ast.Tuple, ast.List)) and isinstance(val, AObj) and getattr(val, "fields", None):
            val = [val.attrs[f_] for f_ in val.fields]
        if isinstance(tgt, (ast.Tuple, ast.List)) and isinstance(val, Res):
            for k, t in enumerate(tgt.elts):
                self.assign(t, Res("item", val, k), env, mod)
            return
        if isinstance(tgt, ast.Subscript):
            base = self.eval(tgt.value, env, mod)
            if isinstance(base, dict):
                base[self.eval(tgt.slice, env, mod)] = val
                return
        if isinstance(tgt, ast.Attribute):
            base = self.eval(tgt.value, env, mod)
            if isinstance(base, AObj):
                base.attrs[tgt.attr] = val
                return
            if isinstance(base, Opaque) and base.what.startswith("class ") and "." in base.what[6:]:
                # a class attribute rebound at run time (instance counters, ...): kept per interpreter state, read back by class_const
                cm, cn = base.what[6:].split(".", 1)
                self.__dict__.setdefault("_cc_memo", {})[(cm, cn, tgt.attr)] = val
                return
        return super().assign(tgt, val, env, mod)

    def apply_value(self, f, args, mod):
        """call a function value (repository function, lambda, bound method of an abstract object)"""
        if isinstance(f, FuncRef):
            return self.call_func(f, args)
        if isinstance(f, Opaque) and f.what == "lambda":
            lam = f.node
            params = [a.arg for a in lam.args.args]
            loc = dict(getattr(f, "env", None) or {})
            loc.update(zip(params, args))
            return self.eval(lam.body, loc, f.mod or mod)
        if isinstance(f, tuple) and len(f) == 3 and f[0] == "partial":
            return self.apply_value(f[1], list(f[2]) + list(args), mod)
        if isinstance(f, tuple) and f and f[0] == "boundfunc":
            return self.call_func(FuncRef(f[2].mod, f[2].node), [f[1]] + list(args))
        if isinstance(f, tuple) and len(f) == 3 and f[0] == "getter" and len(args) == 1:
            outs = []
            for k in f[2]:
                if f[1] == "attrgetter":
                    cur = args[0]
                    for part in str(k).split("."):
                        cur = self.eval(ast.Attribute(value=ast.Name(id="__o", ctx=ast.Load()), attr=part, ctx=ast.Load()), {"__o": cur}, mod)
                    outs.append(cur)
                else:
                    outs.append(self.eval(ast.Subscript(value=ast.Name(id="__o", ctx=ast.Load()), slice=ast.Constant(k), ctx=ast.Load()), {"__o": args[0]}, mod))
            return outs[0] if len(outs) == 1 else tuple(outs)
        if callable(f) and f in (float, int, str, bool, len, abs, bytes):
            r = self.builtin(f.__name__, list(args), {}, None)
            if r is not NotImplemented:
                return r
            try:
                return f(*args)
            except (ValueError, TypeError, OverflowError) as ex:
                raise AbsRaise(type(ex).__name__, str(ex))
        raise NotConstant(f"call of function value {f!r}")

    def eval_expr(self, node, env, mod):
        """evaluate a construct expression (lambda ctx: ..., `this.x * this.y`, or a named function) on an abstract context"""
        try:
            if isinstance(node, ast.Lambda):
                params = [a.arg for a in node.args.args]
                loc = dict(zip(params, env.get("__args__", [])))
                loc.update({k: v for k, v in env.items() if k != "__args__"})
                return ("value", self.eval(node.body, loc, mod))
            if isinstance(node, (ast.FunctionDef, ast.AsyncFunctionDef)):
                return ("value", self.call_func(FuncRef(mod, node), env.get("__args__", [])))
            if isinstance(node, ast.Name):
                f = self.eval(node, {}, mod)
                if isinstance(f, FuncRef):
                    return ("value", self.call_func(f, env.get("__args__", [])))
            return ("value", self.eval(node, {k: v for k, v in env.items() if k != "__args__"}, mod))
        except AbsRaise as ex:
            return ("raise", ex.cls)
        except SymbolicBranch as ex:
            return ("branch", ex.term)
        except NotConstant as ex:
            return ("undecided", str(ex))

    def call_func(self, f, args, kw=None):
        h = self.func_hooks.get((f.mod, f.node.name))
        if h is not None:
            return h(list(args), dict(kw or {}))
        st = self.__dict__.setdefault("_fstack", [])
        st.append(f.node)
        try:
            return super().call_func(f, args, kw)
        finally:
            st.pop()

    # ------------------------------------------------------------------ entry
    def apply(self, fn, args):
        """run repository function (sa.model.Func) on abstract arguments -> ('value', v) | ('raise', cls) | ('branch', term) | ('undecided', why)"""
        ref = FuncRef(fn.mod, fn.node)
        try:
            return ("value", self.call_func(ref, list(args)))
        except AbsRaise as ex:
            return ("raise", ex.cls)
        except SymbolicBranch as ex:
            return ("branch", ex.term)
        except NotConstant as ex:
            return ("undecided", str(ex))
        except RecursionError:
            return ("undecided", "recursion limit")


def _has_text_float(t, depth=0):
    """the term contains a float read from text (which can be inf / nan); products of bounded integers and constants cannot"""
    if depth > 12 or not isinstance(t, Res):
        return False
    if t.op == "float" and t.args and (not isinstance(t.args[0], Res) or pytype_of(t.args[0]) in ("str", None)):
        return True
    if t.op.startswith("attr:") or t.op in ("lookup", "item"):
        return True  # of unknown origin
    return any(_has_text_float(a, depth + 1) for a in t.args)


def _typed(res, pytype):
    s = Sym.__new__(Sym)
    Res.__init__(s, res.op, *res.args)
    s.pytype = pytype
    return s


CONSTRUCT_ERRORS = {"ConstructError", "SizeofError", "AdaptationError", "ValidationError", "StreamError", "FormatFieldError", "IntegerError", "StringError", "MappingError", "RangeError",
                    "RepeatError", "ConstError", "IndexFieldError", "CheckError", "ExplicitError", "NamedTupleError", "TimestampError", "UnionError", "SelectError", "SwitchError",
                    "StopFieldError", "PaddingError", "TerminatedError", "RawCopyError", "RotationError", "ChecksumError", "CancelParsing"}


def _exc_matches(cls, names):
    import builtins
    for h in names:
        if h == "ConstructError" and cls in CONSTRUCT_ERRORS:
            return True
        if h in ("Exception", "BaseException") or h == cls:
            return True
        a, b = getattr(builtins, cls, None), getattr(builtins, h, None)
        if isinstance(a, type) and isinstance(b, type) and issubclass(a, b):
            return True
    return False
