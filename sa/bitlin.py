"""E-BITLIN: GF(2)-affine bit-vector abstract domain and an abstract interpreter over it.

An abstract value is a vector of bit positions; each position is an affine form over symbolic input
bits (XOR of a set of input bits, XOR a constant).  Affine forms are Python ints used as bit sets:
bit 0 = the constant term, bit 1+v = input variable v.  The domain is exact for ^, shifts by
constants, & and | with constants, | of values with disjoint support, look-ups in a table proved
GF(2)-linear, constant-bounded loops (unrolled) and `if <single bit>: A else: B` when A xor B is a
constant vector (the conditional-XOR idiom of CRC code).  Anything else raises Top -> UNDECIDED.
Two programs are equal on *all* inputs iff their affine maps are equal.
"""
from __future__ import annotations

import ast

from sa.consteval import ConstEval, NotConstant


class Top(Exception):
    """Left the affine domain (or the recognised statement subset)."""


class NeedSplit(Exception):
    """A test `bv == k` (or truthiness, k = 0) on a multi-bit symbolic value: the driver forks into the
    point case (bv := k substituted) and the generic case (bv != k assumed)."""

    def __init__(self, bv, k):
        self.bv, self.k = bv, k


def subst_aff(a, sub):
    """apply {var index: 0/1} to an affine form"""
    for v, c in sub.items():
        m = 1 << (1 + v)
        if a & m:
            a ^= m
            if c:
                a ^= 1
    return a


def solve_point(bv, k):
    """substitution making bv == k, when every bit of bv is a single variable (xor constant); else None"""
    sub = {}
    width = max(bv.width(), k.bit_length())
    for i in range(width):
        a = bv.bit(i)
        want = (k >> i) & 1
        if a in (0, 1):
            if a != want:
                return "impossible"
            continue
        c = a & 1
        rest = a >> 1
        if rest & (rest - 1):
            return None
        v = rest.bit_length() - 1
        val = want ^ c
        if v in sub and sub[v] != val:
            return "impossible"
        sub[v] = val
    return sub


class BV:
    __slots__ = ("bits",)

    def __init__(self, bits):
        b = list(bits)
        while b and b[-1] == 0:
            b.pop()
        self.bits = tuple(b)

    @staticmethod
    def const(n):
        if n < 0:
            raise Top("negative constant")
        return BV([(n >> i) & 1 for i in range(n.bit_length())])

    def is_const(self):
        return all(b in (0, 1) for b in self.bits)

    def value(self):
        if not self.is_const():
            raise Top("not constant")
        return sum(b << i for i, b in enumerate(self.bits))

    def bit(self, i):
        return self.bits[i] if i < len(self.bits) else 0

    def width(self):
        return len(self.bits)

    def __xor__(self, o):
        n = max(len(self.bits), len(o.bits))
        return BV([self.bit(i) ^ o.bit(i) for i in range(n)])

    def shr(self, k):
        return BV(self.bits[k:])

    def shl(self, k):
        return BV((0,) * k + self.bits)

    def and_(self, o):
        if o.is_const():
            m = o.value()
            return BV([self.bit(i) if (m >> i) & 1 else 0 for i in range(len(self.bits))])
        if self.is_const():
            return o.and_(self)
        raise Top("& of two non-constant values")

    def or_(self, o):
        n = max(len(self.bits), len(o.bits))
        out = []
        for i in range(n):
            a, b = self.bit(i), o.bit(i)
            if a == 0:
                out.append(b)
            elif b == 0:
                out.append(a)
            elif a == 1 or b == 1:
                out.append(1)
            else:
                raise Top("| of overlapping non-constant bits")
        return BV(out)

    def subst(self, sub):
        return BV([subst_aff(b, sub) for b in self.bits]) if sub else self

    def __eq__(self, o):
        return isinstance(o, BV) and self.bits == o.bits

    def __hash__(self):
        return hash(self.bits)

    def __repr__(self):
        return "BV(" + ",".join(fmt_aff(b) for b in self.bits) + ")"


def fmt_aff(a):
    if a == 0:
        return "0"
    t = []
    if a & 1:
        t.append("1")
    v = 0
    a >>= 1
    while a:
        if a & 1:
            t.append(f"x{v}")
        a >>= 1
        v += 1
    return "^".join(t)


class Opq:
    """A value outside the bit-vector domain that does not (yet) influence a result we compare (other object state)."""

    def __init__(self, what):
        self.what = what

    def __repr__(self):
        return f"<opaque {self.what}>"


class Vars:
    def __init__(self):
        self.n = 0
        self.names = []

    def fresh(self, name, width):
        bits = []
        for i in range(width):
            bits.append(1 << (1 + self.n))
            self.names.append(f"{name}[{i}]")
            self.n += 1
        return BV(bits)


def table_linear(tab):
    """A table is GF(2)-linear iff T[0]=0 and T[i] = xor of T[2^j] over the set bits j of i."""
    n = len(tab)
    if n == 0 or n & (n - 1) or tab[0] != 0:
        return False
    for i in range(n):
        x = 0
        j = 0
        while (1 << j) < n:
            if (i >> j) & 1:
                x ^= tab[1 << j]
            j += 1
        if x != tab[i]:
            return False
    return True


def lookup_linear(tab, idx: BV):
    if idx.width() > (len(tab) - 1).bit_length():
        raise Top("index not proven inside the table")
    out = BV([])
    for j in range(idx.width()):
        t = tab[1 << j]
        b = idx.bit(j)
        if b == 0:
            continue
        out = out ^ BV([b if (t >> i) & 1 else 0 for i in range(t.bit_length())])
    return out


def cond_xor(bit, a: BV, b: BV):
    """value of `a if bit else b` when a xor b is constant."""
    if bit == 1:
        return a
    if bit == 0:
        return b
    k = a ^ b
    if not k.is_const():
        raise Top("branches differ by a non-constant vector (non-linear merge)")
    return b ^ BV([bit if kb else 0 for kb in k.bits])


class SymExec:
    """Abstract interpreter for straight-line/loop/if code over BV values.

    env maps variable names and 'self.<attr>' keys to BV (or to python lists = tables, or to ('octets', name)
    symbolic byte strings whose elements are fresh 8-bit values)."""

    def __init__(self, model, ce: ConstEval, vars: Vars, mod, cls=None):
        self.M, self.ce, self.vars, self.mod, self.cls = model, ce, vars, mod, cls
        self.writes = []  # (key, BV, lineno)
        self.octet_reads = []  # (container name, index expr source)
        self.depth = 0
        self.assumed_ne = []  # [(BV, k)] tests already assumed false on this exploration branch
        self.other_reads = []  # attributes read that are neither symbolic inputs nor constants

    def test_eq(self, v, k):
        """truth (0/1) of `v == k` for a BV v and int k; forks when undetermined"""
        if v.is_const():
            return int(v.value() == k)
        for b, kk in self.assumed_ne:
            if b == v and kk == k:
                return 0
        # a single differing constant bit decides it
        for i in range(max(v.width(), k.bit_length())):
            a = v.bit(i)
            if a in (0, 1) and a != ((k >> i) & 1):
                return 0
        raise NeedSplit(v, k)

    # ---- helpers
    def const_of(self, e, env):
        """try compile-time evaluation of an expression that does not involve symbolic values"""
        try:
            loc = {}
            v = self.ce.eval(e, loc, self.mod)
            return v
        except NotConstant:
            return None

    def single_bit(self, v: BV):
        if v.width() > 1:
            raise Top("condition is not a single bit")
        return v.bit(0)

    def cond_bit(self, e, env):
        """affine form of the truth value of a condition"""
        if isinstance(e, ast.Compare) and len(e.ops) == 1:
            a = self.ev(e.left, env)
            b = self.ev(e.comparators[0], env)
            if isinstance(a, Opq) or isinstance(b, Opq):
                raise Top(f"condition on other state: {ast.unparse(e)}")
            if isinstance(e.ops[0], (ast.Is, ast.IsNot)) and (a is None or b is None):
                same = (a is None) and (b is None)
                return int(same if isinstance(e.ops[0], ast.Is) else not same)
            if isinstance(e.ops[0], (ast.In, ast.NotIn)) and isinstance(a, BV) and isinstance(b, (list, tuple)) and all(isinstance(x, (int, BV)) for x in b):
                hit = 0
                for x in b:
                    k = x if isinstance(x, int) else (x.value() if x.is_const() else None)
                    if k is None:
                        raise Top("membership in a sequence of symbolic values")
                    if (int(a.value() == k) if a.is_const() else self.test_eq(a, k)):
                        hit = 1
                        break
                return hit if isinstance(e.ops[0], ast.In) else hit ^ 1
            if isinstance(a, BV) and isinstance(b, BV):
                if a.is_const() and b.is_const():
                    av, bv = a.value(), b.value()
                    r = {ast.Eq: av == bv, ast.NotEq: av != bv, ast.Lt: av < bv, ast.LtE: av <= bv, ast.Gt: av > bv, ast.GtE: av >= bv}.get(type(e.ops[0]))
                    if r is not None:
                        return int(r)
                if b.is_const() and a.width() <= 1 and b.value() in (0, 1):
                    bit = a.bit(0)
                    want1 = b.value() == 1
                    if isinstance(e.ops[0], ast.Eq):
                        return bit if want1 else bit ^ 1
                    if isinstance(e.ops[0], ast.NotEq):
                        return bit ^ 1 if want1 else bit
                if a.is_const() and b.width() <= 1 and a.value() in (0, 1) and isinstance(e.ops[0], (ast.Eq, ast.NotEq)):
                    return self.cond_bit(ast.Compare(left=e.comparators[0], ops=e.ops, comparators=[e.left]), env)
                if a.is_const() and b.is_const():
                    av, bv = a.value(), b.value()
                    r = {ast.Eq: av == bv, ast.NotEq: av != bv, ast.Lt: av < bv, ast.LtE: av <= bv, ast.Gt: av > bv, ast.GtE: av >= bv}.get(type(e.ops[0]))
                    if r is not None:
                        return int(r)
                if isinstance(e.ops[0], (ast.Eq, ast.NotEq)) and (a.is_const() or b.is_const()):
                    v, k = (a, b.value()) if b.is_const() else (b, a.value())
                    t = self.test_eq(v, k)
                    return t if isinstance(e.ops[0], ast.Eq) else t ^ 1
            raise Top("comparison outside the single-bit idiom")
        if isinstance(e, ast.UnaryOp) and isinstance(e.op, ast.Not):
            return self.cond_bit(e.operand, env) ^ 1
        if isinstance(e, ast.BoolOp):
            v = self.ev(e, env)
        else:
            v = self.ev(e, env)
        return self.truth_bit(v)

    def truth_bit(self, v):
        if v is None:
            return 0
        if isinstance(v, bool):
            return int(v)
        if isinstance(v, (list, tuple)) and not (isinstance(v, tuple) and v and v[0] == "octets"):
            return int(len(v) > 0)
        if isinstance(v, Opq):
            raise Top(f"condition on other state: {v.what}")
        if not isinstance(v, BV):
            raise Top("non-bit-vector condition")
        if v.is_const():
            return int(v.value() != 0)
        if v.width() <= 1:
            return v.bit(0)
        return self.test_eq(v, 0) ^ 1

    # ---- expressions
    def ev(self, e, env):
        if isinstance(e, ast.Constant):
            if e.value is None:
                return None
            if isinstance(e.value, bool):
                return e.value
            if not isinstance(e.value, int):
                raise Top(f"constant {e.value!r}")
            return BV.const(e.value)
        if isinstance(e, ast.Compare) and len(e.ops) != 1:
            raise Top("chained comparison")
        if isinstance(e, ast.Compare) or (isinstance(e, ast.UnaryOp) and isinstance(e.op, ast.Not)):
            # a comparison used as a value: its truth bit
            c = self.cond_bit(e, env)
            return bool(c) if c in (0, 1) else BV([c])
        if isinstance(e, ast.BoolOp):
            # python semantics: `a or b` = a if truthy else b ; `a and b` = b if a truthy else a
            cur = self.ev(e.values[0], env)
            for nxt in e.values[1:]:
                t = self.truth_bit(cur)
                if t not in (0, 1):
                    raise Top("boolean operator on a symbolic bit")
                if isinstance(e.op, ast.Or):
                    if t:
                        return cur
                else:
                    if not t:
                        return cur
                cur = self.ev(nxt, env)
            return cur
        if isinstance(e, ast.Name):
            if e.id in env:
                return env[e.id]
            c = self.const_of(e, env)
            return self.lift(c, ast.unparse(e))
        if isinstance(e, ast.Attribute):
            key = ast.unparse(e)
            if key in env:
                return env[key]
            if isinstance(e.value, ast.Name) and e.value.id == "self" and self.cls:
                m = self.M.find_method(self.cls, e.attr)
                if m is not None and m.kind == "property" and self.depth <= 4:
                    return self.inline(m, [], env)
                try:
                    c = self.ce.class_const(self.cls[0], self.cls[1], e.attr)
                except NotConstant:
                    self.other_reads.append(key)
                    raise Top(f"unknown attribute {key}")
                return self.lift(c, key)
            if isinstance(e.value, ast.Name):
                # a static method (plain function) of a class taken as a value: `step = Class._next`
                k_ = (self.cls if e.value.id in ("self", "cls") and self.cls else None) or self.M.lookup_class_name(self.mod, e.value.id)
                m_ = self.M.find_method(k_, e.attr) if k_ else None
                if m_ is not None and m_.kind == "static" and len(m_.node.decorator_list) == 1:
                    return ("func", m_)
            c = self.const_of(e, env)
            return self.lift(c, key)
        if isinstance(e, ast.BinOp) and isinstance(e.op, ast.BitAnd):
            # K & -(x & 1): minus a single bit is "all ones or zero", so the constant is kept exactly when the bit is set (branch-free conditional xor)
            for neg, other in ((e.left, e.right), (e.right, e.left)):
                if isinstance(neg, ast.UnaryOp) and isinstance(neg.op, ast.USub):
                    x, k = self.ev(neg.operand, env), self.ev(other, env)
                    if isinstance(x, BV) and x.width() <= 1 and isinstance(k, BV) and k.is_const():
                        return BV([x.bit(0) if k.bit(i) == 1 else 0 for i in range(k.width())])
        if isinstance(e, ast.BinOp):
            a, b = self.ev(e.left, env), self.ev(e.right, env)
            if isinstance(a, Opq) or isinstance(b, Opq):
                return Opq(ast.unparse(e))
            if not (isinstance(a, BV) and isinstance(b, BV)):
                raise Top("operator on non bit-vector")
            if isinstance(e.op, ast.BitXor):
                return a ^ b
            if isinstance(e.op, ast.BitAnd):
                return a.and_(b)
            if isinstance(e.op, ast.BitOr):
                return a.or_(b)
            if isinstance(e.op, ast.RShift):
                return a.shr(b.value())
            if isinstance(e.op, ast.LShift):
                return a.shl(b.value())
            if a.is_const() and b.is_const():
                av, bv = a.value(), b.value()
                if isinstance(e.op, ast.Add):
                    return BV.const(av + bv)
                if isinstance(e.op, ast.Sub) and av >= bv:
                    return BV.const(av - bv)
                if isinstance(e.op, ast.Mult):
                    return BV.const(av * bv)
            if isinstance(e.op, (ast.Add, ast.Sub, ast.Mult, ast.FloorDiv, ast.Mod)):
                return Opq(ast.unparse(e))
            raise Top(f"operator {type(e.op).__name__} on symbolic value")
        if isinstance(e, ast.UnaryOp) and isinstance(e.op, ast.Invert):
            raise Top("~ on unbounded integer")
        if isinstance(e, ast.IfExp):
            c = self.cond_bit(e.test, env)
            if c == 1:
                return self.ev(e.body, env)
            if c == 0:
                return self.ev(e.orelse, env)
            return cond_xor(c, self.ev(e.body, env), self.ev(e.orelse, env))
        if isinstance(e, ast.Subscript):
            base = self.ev(e.value, env)
            if isinstance(base, list) and isinstance(e.slice, ast.Slice):
                lo = self.ev(e.slice.lower, env) if e.slice.lower is not None else None
                hi = self.ev(e.slice.upper, env) if e.slice.upper is not None else None
                if any(x is not None and not (isinstance(x, BV) and x.is_const()) for x in (lo, hi)) or e.slice.step is not None:
                    raise Top("slice with symbolic bounds")
                return base[(lo.value() if lo is not None else None):(hi.value() if hi is not None else None)]
            if isinstance(base, list):
                ci = self.int_of(e.slice, env)
                if ci is not None:
                    try:
                        x = base[ci]
                        return x if isinstance(x, BV) else BV.const(x)
                    except IndexError:
                        raise Top("constant index outside table")
                idx = self.ev(e.slice, env)
                if idx.is_const():
                    try:
                        x = base[idx.value()]
                        return x if isinstance(x, BV) else BV.const(x)
                    except IndexError:
                        raise Top("constant index outside table")
                if any(isinstance(x, BV) for x in base):
                    raise Top("symbolic index into a symbolic sequence")
                if not table_linear(base):
                    raise Top("table is not GF(2)-linear")
                return lookup_linear(base, idx)
            if isinstance(base, tuple) and base and base[0] == "octets":
                self.octet_reads.append((base[1], ast.unparse(e.slice)))
                return self.vars.fresh(f"{base[1]}[{ast.unparse(e.slice)}]", 8)
            raise Top("subscript of unsupported value")
        if isinstance(e, ast.Call):
            return self.call(e, env)
        if isinstance(e, (ast.Tuple, ast.List)):
            return [self.ev(x, env) for x in e.elts]
        raise Top(f"expression {type(e).__name__}")

    def int_of(self, e, env):
        """concrete (possibly negative) integer value of an index / range-bound expression, or None"""
        if isinstance(e, ast.Constant) and isinstance(e.value, int) and not isinstance(e.value, bool):
            return e.value
        if isinstance(e, ast.UnaryOp) and isinstance(e.op, ast.USub):
            v = self.int_of(e.operand, env)
            return None if v is None else -v
        if isinstance(e, ast.BinOp) and isinstance(e.op, (ast.Add, ast.Sub, ast.Mult, ast.FloorDiv, ast.Mod)):
            a, b = self.int_of(e.left, env), self.int_of(e.right, env)
            if a is None or b is None or (isinstance(e.op, (ast.FloorDiv, ast.Mod)) and b == 0):
                return None
            return {ast.Add: a + b, ast.Sub: a - b, ast.Mult: a * b, ast.FloorDiv: a // b if b else 0, ast.Mod: a % b if b else 0}[type(e.op)]
        if isinstance(e, ast.Call) and isinstance(e.func, ast.Name) and e.func.id == "len" and len(e.args) == 1:
            try:
                v = self.ev(e.args[0], env)
            except Top:
                return None
            return len(v) if isinstance(v, list) else None
        try:
            v = self.ev(e, env)
        except Top:
            return None
        if isinstance(v, BV) and v.is_const():
            return v.value()
        return None

    def lift(self, c, what):
        if isinstance(c, bool) or c is None:
            raise Top(f"{what} is not an integer/table constant")
        if isinstance(c, int):
            return BV.const(c)
        if isinstance(c, (list, tuple)) and all(isinstance(x, int) and not isinstance(x, bool) for x in c):
            return list(c)
        raise Top(f"{what} is not an integer/table constant")

    def call(self, e, env):
        f = e.func
        callee = None
        if isinstance(f, ast.Attribute) and isinstance(f.value, ast.Name):
            if f.value.id == "self" and self.cls:
                callee = self.M.find_method(self.cls, f.attr)
            else:
                k = self.M.lookup_class_name(self.mod, f.value.id)
                if k:
                    callee = self.M.find_method(k, f.attr)
        elif isinstance(f, ast.Name) and isinstance(env.get(f.id), tuple) and len(env[f.id]) == 2 and env[f.id][0] == "func":
            callee = env[f.id][1]
        elif isinstance(f, ast.Name):
            callee = self.M.funcs.get(f"{self.mod}.{f.id}")
            if f.id in ("int",) and len(e.args) == 1:
                return self.ev(e.args[0], env)
        if callee is None or self.depth > 4:
            raise Top(f"call {ast.unparse(f)}")
        args = [self.ev(a, env) for a in e.args]
        return self.inline(callee, args, env)

    def inline(self, callee, args, env):
        params = list(callee.params)
        if len(args) != len(params):
            raise Top("arity")
        loc = dict(zip(params, args))
        if callee.kind in ("method", "property"):
            for k2, v2 in env.items():
                if k2.startswith("self."):
                    loc[k2] = v2
        sub = type(self)(self.M, self.ce, self.vars, callee.mod, (callee.mod, callee.cls) if callee.cls else None)
        sub.depth = self.depth + 1
        sub.assumed_ne = self.assumed_ne
        sub.other_reads = self.other_reads
        r = sub.run_body(callee.node.body, loc)
        self.writes.extend(sub.writes)
        self.octet_reads.extend(sub.octet_reads)
        if callee.kind in ("method", "property"):
            for k2, v2 in loc.items():
                if k2.startswith("self."):
                    env[k2] = v2
        return r

    # ---- statements
    def run_body(self, stmts, env):
        """returns the returned BV (or None). Only a trailing return / returns in both arms of an if are handled."""
        for i, s in enumerate(stmts):
            r = self.stmt(s, env)
            if r is not None:
                return r
        return None

    def assign(self, tgt, v, env, lineno):
        if isinstance(tgt, ast.Name):
            env[tgt.id] = v
        elif isinstance(tgt, ast.Attribute) and isinstance(tgt.value, ast.Name) and tgt.value.id == "self":
            env["self." + tgt.attr] = v
            self.writes.append(("self." + tgt.attr, v, lineno))
        else:
            raise Top("assignment target")

    def stmt(self, s, env):
        if isinstance(s, ast.Expr):
            if isinstance(s.value, ast.Constant):
                return None
            if isinstance(s.value, ast.Call) and ast.unparse(s.value.func).startswith("_LOGGER."):
                return None
            raise Top("expression statement")
        if isinstance(s, ast.Assign):
            v = self.ev(s.value, env)
            for t in s.targets:
                self.assign(t, v, env, s.lineno)
            return None
        if isinstance(s, ast.AnnAssign):
            if s.value is not None:
                self.assign(s.target, self.ev(s.value, env), env, s.lineno)
            return None
        if isinstance(s, ast.AugAssign):
            v = self.ev(ast.BinOp(left=_load(s.target), op=s.op, right=s.value), env)
            self.assign(s.target, v, env, s.lineno)
            return None
        if isinstance(s, ast.Return):
            if s.value is None:
                raise Top("bare return")
            return self.ev(s.value, env)
        if isinstance(s, ast.Pass):
            return None
        if isinstance(s, ast.For):
            it = s.iter
            seq = None
            if isinstance(it, ast.Call) and isinstance(it.func, ast.Name) and it.func.id == "range" and 1 <= len(it.args) <= 3:
                cs = [self.int_of(a, env) for a in it.args]
                if all(c is not None for c in cs) and (len(cs) < 3 or cs[2] != 0):
                    r_ = range(*cs)
                    if len(r_) <= 64 and all(k >= 0 for k in r_):
                        seq = [BV.const(k) for k in r_]
            else:
                try:
                    v = self.ev(it, env)
                except Top:
                    v = None
                if isinstance(v, list) and len(v) <= 64:
                    seq = [x if isinstance(x, BV) else BV.const(x) for x in v]
            if seq is None or s.orelse:
                raise Top("loop is not a small constant range")
            for k in seq:
                if isinstance(s.target, ast.Name):
                    env[s.target.id] = k
                r = self.run_body(s.body, env)
                if r is not None:
                    raise Top("return inside loop")
            return None
        if isinstance(s, ast.While):
            for _ in range(65):
                c = self.cond_bit(s.test, env)
                if c == 0:
                    return None
                if c != 1:
                    raise Top("while condition on a symbolic bit")
                r = self.run_body(s.body, env)
                if r is not None:
                    raise Top("return inside loop")
            raise Top("while loop does not end within 64 iterations")
        if isinstance(s, ast.If):
            c = self.cond_bit(s.test, env)
            if c == 1:
                return self.run_body(s.body, env)
            if c == 0:
                return self.run_body(s.orelse, env)
            ea, eb = dict(env), dict(env)
            wa = len(self.writes)
            ra = self.run_body(s.body, ea)
            rb = self.run_body(s.orelse, eb)
            if (ra is None) != (rb is None):
                raise Top("return in one arm only")
            for k in set(ea) | set(eb):
                if k not in ea or k not in eb:
                    raise Top(f"{k} defined in one arm only")
                va, vb = ea[k], eb[k]
                if isinstance(va, BV) and isinstance(vb, BV):
                    env[k] = va if va == vb else cond_xor(c, va, vb)
                elif isinstance(va, Opq) or isinstance(vb, Opq):
                    env[k] = Opq(k)
                elif va is vb or (type(va) is type(vb) and va == vb):
                    env[k] = va
                else:
                    raise Top(f"{k} merges non bit-vectors")
            # writes inside arms are conditional: re-record merged field values
            del self.writes[wa:]
            for k in env:
                if k.startswith("self.") and (ea.get(k) is not None):
                    pass
            if ra is not None:
                return ra if ra == rb else cond_xor(c, ra, rb)
            return None
        raise Top(f"statement {type(s).__name__}")


def _load(t):
    t2 = ast.parse(ast.unparse(t), mode="eval").body
    return t2


# ---------------------------------------------------------------- reference definitions (specification side)
def ref_crc_reflected_step(reg: BV, octet: BV, poly: int, width=16):
    """One octet of a reflected (LSB-first) CRC, bit-serial: reg ^= octet; 8 x (reg = reg>>1 ^ (poly if reg&1))."""
    v = reg ^ octet
    for _ in range(8):
        low = v.bit(0)
        v = v.shr(1)
        v = cond_xor(low, v ^ BV.const(poly), v)
    return v


def ref_table(poly: int):
    out = []
    for i in range(256):
        v = i
        for _ in range(8):
            v = (v >> 1) ^ poly if v & 1 else v >> 1
        out.append(v)
    return out


def rank_gf2(rows):
    rows = [r for r in rows if r]
    rank = 0
    while rows:
        p = max(rows)
        rows.remove(p)
        if p == 0:
            continue
        rank += 1
        hb = p.bit_length() - 1
        rows = [(r ^ p) if (r >> hb) & 1 else r for r in rows]
        rows = [r for r in rows if r]
    return rank


def explore(run, max_cases=24):
    """run(sub, assumed_ne) -> result; forks on NeedSplit. Returns [(sub, assumed_ne, result)]."""
    cases = []
    work = [({}, [])]
    while work:
        if len(cases) + len(work) > max_cases:
            raise Top("too many case splits")
        sub, ne = work.pop()
        try:
            res = run(sub, ne)
        except NeedSplit as sp:
            bv = sp.bv
            pt = solve_point(bv, sp.k)
            if pt is None:
                raise Top("test on a value that is not a plain input (cannot split)")
            if pt != "impossible":
                s2 = dict(sub)
                s2.update(pt)
                work.append((s2, [(b.subst(pt), k) for b, k in ne]))
            work.append((sub, ne + [(bv, sp.k)]))
            continue
        cases.append((sub, ne, res))
    return cases


def point_value(sub, vars_of):
    """concrete value of an input BV under a point substitution (unassigned bits shown as 0)"""
    n = 0
    for i, a in enumerate(vars_of.bits):
        a2 = subst_aff(a, sub)
        if a2 == 1:
            n |= 1 << i
    return n
