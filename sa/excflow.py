"""E-EXC for the COSEM decoders: typed exception-escape analysis of the normalisers over the construct-grammar IR, and of the
raw lambdas embedded in the grammars.

Kinds of a parse result: ('int',) ('str',) ('none',) ('enum',) ('decimal',) ('datetime',) ('num',) ('node', id) ('list', frozenset(kinds)).
A value is wire-derived when it is computed from the parse result; every kind in its kind-set is realisable by some input, so a
partial operation applied to a kind it is not defined on is a DEFINITE escape unless a guard on the path removes that kind.
"""
from __future__ import annotations

import ast
import builtins

from sa.consir import EnumVal, Expr, N, World, all_nodes, children, consumption, kinds as ir_kinds
from sa.paths import Engine, Path, show_sv, strip_epoch

NUMERIC = {("int",), ("decimal",), ("num",), ("float",)}
STR_METHODS = {"startswith", "endswith", "lower", "upper", "strip", "split", "decode", "encode", "isascii", "join", "replace", "format", "find"}


class IRTypes:
    def __init__(self, w: World):
        self.w = w
        self.nodes = {}

    def node_kind(self, n: N):
        self.nodes[id(n.ident)] = n.ident
        return ("node", id(n.ident))

    def members(self, kind):
        n = self.nodes[kind[1]]
        out = {}
        for s in n.a.get("subs", []):
            if isinstance(s, N) and s.name:
                out[s.name] = s
        return out

    def result(self, n: N, depth=0):
        """kind set of the value a parse of n yields"""
        if depth > 30:
            return {("opaque",)}
        k = n.kind
        if k in ("Int", "BitsInteger"):
            return {("int",)}
        if k == "Enum":
            return {("enum",)}
        if k == "Const":
            return self.result(n.a["sub"], depth + 1) if isinstance(n.a.get("sub"), N) else {("bytes",)}
        if k in ("Struct", "BitStruct"):
            return {self.node_kind(n)}
        if k == "FocusedSeq":
            for s in n.a["subs"]:
                if isinstance(s, N) and s.name == n.a["focus"]:
                    return self.result(s, depth + 1)
            return {("opaque",)}
        if k in ("PascalString", "PaddedString"):
            return {("str",)}
        if k == "ExprAdapter":
            from sa.consir import returned_exprs
            dec = n.a.get("decoder")
            rets = returned_exprs(dec.node) if isinstance(dec, Expr) else None
            if not rets:
                return {("opaque",)}
            out = set()
            for br in rets:
                if isinstance(br, ast.Constant) and br.value is None:
                    out.add(("none",))
                elif isinstance(br, ast.Name):
                    out |= self.result(n.a["sub"], depth + 1)
                elif isinstance(br, ast.Call) and ast.unparse(br.func).endswith(".join"):
                    out.add(("str",))
                else:
                    out.add(("opaque",))
            return out
        if k == "Peek":
            return self.result(n.a["sub"], depth + 1) | {("none",)}
        if k == "If":
            return self.result(n.a["sub"], depth + 1) | {("none",)}
        if k == "IfThenElse":
            return self.result(n.a["then"], depth + 1) | self.result(n.a["els"], depth + 1)
        if k == "Switch":
            out = set()
            for c in n.a["cases"].values():
                if isinstance(c, N):
                    out |= self.result(c, depth + 1)
            d = n.a.get("default")
            if isinstance(d, N):
                out |= self.result(d, depth + 1)
            return out
        if k == "Select":
            out = set()
            for c in n.a["subs"]:
                if isinstance(c, N):
                    out |= self.result(c, depth + 1)
            return out
        if k in ("GreedyRange", "Array"):
            return {("list", frozenset(self.result(n.a["sub"], depth + 1)))}
        if k in ("Pass", "Check", "Padding"):
            return {("none",)}
        if k == "Error":
            return set()
        if k == "Computed":
            return {self.computed_kind(n)}
        return {("opaque",)}

    def computed_kind(self, n):
        e = n.a.get("expr")
        src = e.src if isinstance(e, Expr) else ""
        if "datetime.datetime(" in src:
            return ("datetime",)
        if "Decimal(" in src:
            return ("decimal",)
        if src.replace("construct.", "").startswith("this._index") or src.strip().startswith("lambda") and "int(" in src:
            return ("int",)
        if "KaifaBodyType" in src or "BodyType" in src:
            return ("enum",)
        if "*" in src and "this." in src:
            return ("num",)
        return ("opaque",)


class Escape:
    def __init__(self, cls, origin, line, text, guarded=False):
        self.cls, self.origin, self.line, self.text = cls, origin, line, text

    def key(self):
        return (self.cls, self.origin)


def covered(cls_name, handler_names):
    """is exception class `cls_name` a subclass of a class named in the handler?"""
    for h in handler_names:
        h = h.split(".")[-1]
        if h in ("Exception", "BaseException"):
            return True
        if cls_name.startswith("construct:") or cls_name.endswith("Error") and cls_name in ("ConstructError", "StreamError", "ConstError", "CheckError", "ExplicitError", "SwitchError", "StringError", "RangeError", "SelectError", "MappingError", "IntegerError", "FormatFieldError"):
            if h == "ConstructError":
                return True
            continue
        a, b = getattr(builtins, cls_name, None), getattr(builtins, h, None)
        if isinstance(a, type) and isinstance(b, type) and issubclass(a, b):
            return True
    return False


# ------------------------------------------------------------------------------------------------ grammar lambdas
def lambda_escapes(w: World, root: N, le, mod):
    """raw exceptions of Computed / Check / ExprAdapter lambdas that are not under a Select or GreedyRange"""
    from sa.lameval import Ctx, Sym
    from sa.consteval import NotConstant
    out = []
    n_sites = 0
    T = IRTypes(w)

    def walk(n, guarded, holder, depth=0, excl=None):
        nonlocal n_sites
        if depth > 40:
            return
        excl = excl or {}
        k = n.kind
        g2 = guarded or k in ("Select", "GreedyRange")
        if k in ("Struct", "FocusedSeq", "Sequence", "LazyStruct"):
            holder = n
            # a nested context: what the enclosing struct calls this.x is this._.x in here
            excl = {_up(key): v for key, v in excl.items()}
        if k in ("Computed", "Check") and isinstance(n.a.get("expr"), Expr) and holder is not None:
            n_sites += 1
            if not guarded:
                if isinstance(n.a["expr"].node, (ast.Lambda, ast.FunctionDef)):
                    out.extend(_lambda_site(n, holder, T, le))
                else:
                    out.extend(_this_site(n, holder, T, le, excl))
        for lbl, c in children(n):
            e2 = excl
            if k == "Switch" and isinstance(n.a.get("key"), Expr) and c is n.a.get("default"):
                # the default alternative is taken exactly for the keys no case names
                ks = _norm_key(n.a["key"].src)
                e2 = dict(excl)
                e2[ks] = set(e2.get(ks, ())) | set(n.a["cases"].keys())
            walk(c, g2, holder, depth + 1, e2)

    walk(root, False, None)
    return out, n_sites


def _norm_key(src):
    return src.replace("construct.", "").replace(" ", "")


def _up(key):
    return key.replace("this.", "this._.", 1) if key.startswith("this.") else key


def reachable_kinds(T, m, excl):
    """result kinds of member m, leaving out the cases of a Switch whose key an enclosing Switch has already dispatched elsewhere"""
    if m.kind == "Switch" and isinstance(m.a.get("key"), Expr) and _norm_key(m.a["key"].src) in excl:
        gone = excl[_norm_key(m.a["key"].src)]
        out = set()
        for ck, c in m.a["cases"].items():
            if ck not in gone and isinstance(c, N):
                out |= T.result(c)
        d = m.a.get("default")
        if isinstance(d, N):
            out |= T.result(d)
        return out
    return T.result(m)


def _lambda_site(n, holder, T, le):
    from sa.lameval import Ctx, Sym
    from sa.consteval import NotConstant
    lam = n.a["expr"].node
    refs = {a.attr for a in ast.walk(lam) if isinstance(a, ast.Attribute) and isinstance(a.value, ast.Name) and a.value.id == lam.args.args[0].arg} if lam.args.args else set()
    subs = [s for s in holder.a["subs"] if isinstance(s, N)]
    idx = next((i for i, s in enumerate(subs) if s is n or s.ident is n.ident), len(subs))
    before = subs[:idx]
    members = {s.name: s for s in before if s.name}
    optional = [m for m in refs if m in members and ("none",) in T.result(members[m])]
    checks = [s for s in before if s.kind == "Check" and isinstance(s.a.get("expr"), Expr) and isinstance(s.a["expr"].node, (ast.Lambda, ast.FunctionDef))]
    out = []
    base = {}
    for m in refs:
        if m in members:
            ks = T.result(members[m])
            base[m] = 1 if ("int",) in ks or ("num",) in ks else ("x" if ("str",) in ks else 1)
        else:
            base[m] = 1
    for m in optional:
        ctx = Ctx(dict(base))
        ctx[m] = None
        # a dominating Check that fails turns the None case into a CheckError (a ConstructError)
        rejected = False
        for c in checks:
            try:
                if not le.call_lambda(c.a["expr"].node, [ctx], holder.src.split(".")[0] if holder.src else "cosem"):
                    rejected = True
            except NotConstant:
                pass
        if rejected:
            continue
        try:
            r = le.call_lambda(lam, [ctx], "cosem")
        except NotConstant as e:
            if str(e) == "arithmetic on None" or (str(e).startswith("attribute ") and str(e).endswith(" of None")):
                out.append(Escape("TypeError", f"{holder.src or holder.name or 'struct'}:{n.name or n.kind}", n.line, f"member `{m}` can be None (value not specified) and is used in an operation that needs a number"))
            continue
        if isinstance(r, Sym) and r[1] == "datetime.datetime":
            args = list(r[2])[:7]
            if any(a is None for a in args):
                out.append(Escape("TypeError", f"{holder.src or holder.name or 'struct'}:{n.name or n.kind}", n.line, f"datetime() receives None for `{m}` (0xFF = not specified on the wire)"))
    return out


def _this_site(n, holder, T, le, excl=None):
    """Computed(this.a * this.b.c): arithmetic on members that can be None, or a struct (Container)"""
    from sa.consir import N as _N
    node = n.a["expr"].node
    if not any(isinstance(x, ast.BinOp) for x in ast.walk(node)):
        return []
    out = []
    subs = [s for s in holder.a["subs"] if isinstance(s, _N)]
    members = {s.name: s for s in subs if s.name}
    for a in ast.walk(node):
        if isinstance(a, ast.Attribute) and isinstance(a.value, ast.Attribute) and a.value.attr == "this" and a.attr in members:
            ks = T.result(members[a.attr])
            if ("none",) in ks:
                out.append(Escape("TypeError", f"{holder.src or holder.name or 'struct'}:{n.name or n.kind}", n.line,
                                  f"member `{a.attr}` can be None (no matching case and no default) and is used in arithmetic"))
    # a direct operand of + - * / that can be a struct: a Container supports none of them
    for b in ast.walk(node):
        if isinstance(b, ast.BinOp) and isinstance(b.op, (ast.Add, ast.Sub, ast.Mult, ast.Div, ast.FloorDiv, ast.Mod, ast.Pow)):
            for a in (b.left, b.right):
                if isinstance(a, ast.Attribute) and isinstance(a.value, ast.Attribute) and a.value.attr == "this" and a.attr in members:
                    ks = reachable_kinds(T, members[a.attr], excl or {})
                    nodes = [k_ for k_ in ks if k_[0] == "node"]
                    if nodes:
                        names = sorted({(T.nodes[k_[1]].src or T.nodes[k_[1]].name or "struct") for k_ in nodes})
                        out.append(Escape("TypeError", f"{holder.src or holder.name or 'struct'}:{n.name or n.kind}", n.line,
                                          f"member `{a.attr}` can be a struct ({', '.join(names)}) and is an operand of arithmetic: Container has no such operator"))
    return out


# ------------------------------------------------------------------------------------------------ typed normaliser analysis
class Typed:
    def __init__(self, T: IRTypes, params, consts):
        self.T = T
        self.params = params  # name -> kind set
        self.consts = consts  # ('g', name) -> python value (dict/list) from E-CONST
        self.refine = {}

    def typeof(self, sv):
        sv = strip_epoch(sv)
        if sv in self.refine:
            return self.refine[sv]
        t = sv[0]
        if t == "p":
            return self.params.get(sv[1])
        if t == "f0":
            base = self.typeof(sv[1])
            if base is None:
                return None
            out = set()
            for k in base:
                if k[0] == "node":
                    m = self.T.members(k).get(sv[2])
                    if m is not None:
                        out |= self.T.result(m)
            return out
        if t == "iter":
            base = self.typeof(sv[1])
            if base is None:
                return None
            out = set()
            for k in base:
                if k[0] == "list":
                    out |= set(k[1])
            return out or None
        if t == "c":
            v = sv[1]
            return {("none",)} if v is None else {("int",)} if isinstance(v, int) else {("str",)} if isinstance(v, str) else None
        if t in ("g", "l"):
            return None
        return None

    def has_member(self, kind, attr):
        return kind[0] == "node" and attr in self.T.members(kind)


def scan_path(p, tv: Typed, at, sink, start=0):
    """walk guards and effects of one path in source order; report partial operations on kinds they are not defined for"""
    events = []
    for g, pol, ln in p.guards:
        events.append((ln, 0, "guard", (g, pol)))
    for e in p.effects[start:]:
        if e[0] == "raise":
            events.append((e[2], 1, "effect", e[:3]))
        elif e[0] == "await" and len(e) > 3:
            events.append((e[2], 1, "effect", e[:3]))
        elif isinstance(e[-1], int):
            events.append((e[-1], 1, "effect", e))
    if p.ret is not None:
        events.append((10 ** 9, 2, "ret", p.ret))
    events.sort(key=lambda x: (x[0], x[1]))
    facts_in = set()
    tv.refine = {}
    for ln, _, kind, payload in events:
        if kind == "guard":
            g, pol = payload
            gs = strip_epoch(g)
            _scan_sv(gs, tv, at, ln, sink, facts_in)
            _apply_guard(gs, pol, tv, facts_in)
        elif kind == "effect":
            e = payload
            if e[0] == "raise":
                cls = str(e[1]).split("(")[0].strip()
                if cls and cls != "reraise":
                    sink(Escape(cls, f"{at}:raise", ln, f"explicit raise {str(e[1])[:60]}"))
                continue
            for x in e[1:-1]:
                if isinstance(x, tuple):
                    _scan_sv(strip_epoch(x), tv, at, ln, sink, facts_in)
        else:
            _scan_sv(strip_epoch(payload), tv, at, ln, sink, facts_in)


def _apply_guard(g, pol, tv, facts):
    if g[0] == "call" and g[1] == "hasattr" and len(g[2]) == 2 and g[2][1][0] == "c":
        x, attr = g[2][0], g[2][1][1]
        ks = tv.typeof(x)
        if ks is not None:
            tv.refine[x] = {k for k in ks if tv.has_member(k, attr) == pol or (k[0] == "datetime" and False)}
        return
    if g[0] == "call" and g[1] == "isinstance" and len(g[2]) == 2:
        x, ty = g[2][0], show_sv(g[2][1])
        ks = tv.typeof(x)
        if ks is not None:
            want = {("int",)} if "int" in ty else {("str",), ("enum",)} if "str" in ty else None
            if want is not None:
                tv.refine[x] = {k for k in ks if (k in want) == pol}
        return
    if g[0] == "cmp" and g[1] == "Is" and g[3] == ("c", None):
        ks = tv.typeof(g[2])
        if ks is not None:
            tv.refine[g[2]] = {k for k in ks if (k == ("none",)) == pol}
        if not pol:
            facts.add(("notnone", g[2]))
        return
    if g[0] == "cmp" and g[1] == "In":
        if pol:
            facts.add(("in", g[2], g[3]))
        return
    if g[0] == "bool" and g[1] == "and" and pol:
        for x in g[2]:
            _apply_guard(x, True, tv, facts)
        return
    if g[0] == "not":
        _apply_guard(g[1], not pol, tv, facts)
        return
    ks = tv.typeof(g)
    if ks is not None and g[0] in ("f0", "p", "iter"):
        tv.refine[g] = {k for k in ks if (k != ("none",))} if pol else {k for k in ks if k in (("none",), ("str",), ("int",), ("list", frozenset()))}


def _scan_sv(sv, tv, at, ln, sink, facts):
    if not isinstance(sv, tuple) or not sv:
        return
    t = sv[0]
    if t == "f0":
        _scan_sv(sv[1], tv, at, ln, sink, facts)
        base = tv.typeof(sv[1])
        if base is not None:
            badk = [k for k in base if not (tv.has_member(k, sv[2]) or (k in (("str",), ("enum",)) and sv[2] in STR_METHODS) or k == ("opaque",) or (k == ("datetime",)))]
            if badk:
                sink(Escape("AttributeError", f"{at}:.{sv[2]}", ln, f"`.{sv[2]}` is read from a parse result that can be {_fmt(badk, tv)} (no such attribute)"))
        return
    if t == "op" and sv[1] in ("Mult", "Add", "Sub", "Div", "Pow", "FloorDiv", "Mod"):
        for x in (sv[2], sv[3]):
            _scan_sv(x, tv, at, ln, sink, facts)
            ks = tv.typeof(x)
            if ks is not None:
                badk = [k for k in ks if k not in NUMERIC and k != ("opaque",)]
                if badk:
                    sink(Escape("TypeError", f"{at}:arith", ln, f"arithmetic on a parse result that can be {_fmt(badk, tv)}"))
        return
    if t == "sub":
        _scan_sv(sv[1], tv, at, ln, sink, facts)
        _scan_sv(sv[2], tv, at, ln, sink, facts)
        base = sv[1]
        if base[0] == "call" and base[1] == "next" and sv[2][0] != "c":
            dflt = base[2][1] if len(base[2]) > 1 else None
            if dflt is None:
                sink(Escape("StopIteration", f"{at}:next()", ln, "next() without default on a wire-dependent selection"))
            elif dflt == ("c", None):
                if ("notnone", base) not in facts:
                    sink(Escape("TypeError", f"{at}:[next()]", ln, "the result of next(..., None) is indexed without checking that something was selected"))
            else:
                sink(Escape("IndexError", f"{at}:[next()]", ln, "a list selected by a wire-derived length falls back to a default that is then indexed by a wire-derived position "
                                                                  "(no layout matches -> empty list -> IndexError)"))
        if base in tv.consts or (base[0] == "f0" and base[1][0] == "g" and ("g2", base[1][1], base[2]) in tv.consts):
            val = tv.consts.get(base, tv.consts.get(("g2", base[1][1], base[2]) if base[0] == "f0" else None))
            if isinstance(val, dict):
                if ("in", sv[2], base) not in facts and sv[2][0] != "c":
                    sink(Escape("KeyError", f"{at}:[{show_sv(base)[-30:]}]", ln, "a dictionary is indexed with a wire-derived key without a dominating membership test"))
        return
    if t == "call":
        name = str(sv[1])
        for x in sv[2]:
            if isinstance(x, tuple):
                _scan_sv(x, tv, at, ln, sink, facts)
        if name in ("round", "abs", "float"):
            for x in sv[2][:1]:
                ks = tv.typeof(x)
                if ks is not None:
                    badk = [k for k in ks if k not in NUMERIC and k != ("opaque",) and not (name == "float" and k == ("str",))]
                    if badk:
                        sink(Escape("TypeError", f"{at}:{name}()", ln, f"{name}() of a parse result that can be {_fmt(badk, tv)}"))
        if name.endswith("from_string") and sv[2]:
            x = sv[2][-1]
            ks = tv.typeof(x)
            if ks is not None:
                badk = [k for k in ks if k not in (("str",), ("enum",), ("opaque",))]
                if badk:
                    sink(Escape("TypeError", f"{at}:from_string()", ln, f"an OBIS string is parsed from a value that can be {_fmt(badk, tv)}"))
        return
    for x in sv[1:]:
        if isinstance(x, tuple):
            _scan_sv(x, tv, at, ln, sink, facts)


def _fmt(ks, tv):
    out = []
    for k in ks:
        if k[0] == "node":
            n = tv.T.nodes[k[1]]
            out.append(f"a {n.src or n.name or n.kind} container")
        elif k[0] == "list":
            out.append("a list")
        else:
            out.append({"none": "None", "int": "an int", "str": "a str", "enum": "an enum string", "decimal": "a Decimal", "datetime": "a datetime"}.get(k[0], k[0]))
    return " / ".join(sorted(set(out)))
