"""E-MODEL: resolved program model for the han package (stdlib ast only; nothing is imported or executed)."""
from __future__ import annotations
import ast, os
from dataclasses import dataclass, field



@dataclass
class Func:
    mod: str
    cls: str | None
    name: str
    node: ast.AST
    kind: str = "function"  # function|method|property|static|classmethod
    memo: bool = False  # functools.cached_property: the first value read is kept in the instance

    @property
    def qual(self):
        return f"{self.mod}.{self.cls}.{self.name}" if self.cls else f"{self.mod}.{self.name}"

    @property
    def params(self):
        a = self.node.args
        ps = [x.arg for x in a.posonlyargs + a.args]
        if self.kind in ("method", "property", "classmethod") and ps:
            ps = ps[1:]
        return ps


@dataclass
class Cls:
    mod: str
    name: str
    node: ast.ClassDef
    bases: list = field(default_factory=list)  # (mod, name) resolved in-repo bases
    methods: dict = field(default_factory=dict)
    consts: dict = field(default_factory=dict)  # class-level simple constants (ast nodes)
    field_types: dict = field(default_factory=dict)  # attr -> (mod, clsname) | None
    field_inits: dict = field(default_factory=dict)  # attr -> ast value in __init__

    @property
    def key(self):
        return (self.mod, self.name)


class Model:
    def __init__(self, sources):
        self.sources = sources
        self.mods: dict[str, ast.Module] = {}
        self.src: dict[str, str] = {}
        self.classes: dict[tuple, Cls] = {}
        self.funcs: dict[str, Func] = {}
        self.imports: dict[str, dict] = {}  # mod -> local name -> ("module", m) | ("symbol", m, name)
        self.mod_consts: dict[str, dict] = {}
        for m in sources.package_modules():
            self.src[m] = sources.text[m]
            self.mods[m] = sources.tree(m)
        for m, t in self.mods.items():
            self._scan_module(m, t)
        for c in self.classes.values():
            self._resolve_bases(c)
        for c in self.classes.values():
            self._scan_fields(c)
        self.has_memo = any(f.memo for f in self.funcs.values())
        # properties / methods that (transitively, through self.<name> of their own class) read a cached_property
        self.memo_reach = {f.qual for f in self.funcs.values() if f.memo}
        grow = bool(self.memo_reach)
        while grow:
            grow = False
            for f in self.funcs.values():
                if f.qual in self.memo_reach or not f.cls:
                    continue
                for n in ast.walk(f.node):
                    if isinstance(n, ast.Attribute) and isinstance(n.value, ast.Name) and n.value.id == "self" and f"{f.mod}.{f.cls}.{n.attr}" in self.memo_reach:
                        self.memo_reach.add(f.qual)
                        grow = True
                        break

    # ---------- scanning
    def _scan_module(self, m, t):
        imp = self.imports.setdefault(m, {})
        consts = self.mod_consts.setdefault(m, {})
        for s in t.body:
            if isinstance(s, ast.ImportFrom):
                for a in s.names:
                    loc = a.asname or a.name
                    if s.module == "han":
                        imp[loc] = ("module", a.name)
                    elif s.module and s.module.startswith("han."):
                        imp[loc] = ("symbol", s.module[4:], a.name)
                    else:
                        imp[loc] = ("ext", s.module, a.name)
            elif isinstance(s, ast.Import):
                for a in s.names:
                    imp[a.asname or a.name] = ("extmod", a.name)
            elif isinstance(s, ast.ClassDef):
                c = Cls(m, s.name, s)
                self.classes[c.key] = c
                for f in s.body:
                    if isinstance(f, (ast.FunctionDef, ast.AsyncFunctionDef)):
                        kind = "method"
                        for d in f.decorator_list:
                            dn = d.id if isinstance(d, ast.Name) else getattr(d, "attr", None)
                            if dn == "property":
                                kind = "property"
                            elif dn == "staticmethod":
                                kind = "static"
                            elif dn == "classmethod":
                                kind = "classmethod"
                        memo = any((d.id if isinstance(d, ast.Name) else getattr(d, "attr", None)) == "cached_property" for d in f.decorator_list)
                        if memo:
                            kind = "property"
                        fo = Func(m, s.name, f.name, f, kind, memo)
                        c.methods[f.name] = fo
                        self.funcs[fo.qual] = fo
                    elif isinstance(f, ast.Assign) and len(f.targets) == 1 and isinstance(f.targets[0], ast.Name):
                        c.consts[f.targets[0].id] = f.value
                    elif isinstance(f, ast.AnnAssign) and isinstance(f.target, ast.Name) and f.value is not None:
                        c.consts[f.target.id] = f.value
            elif isinstance(s, (ast.FunctionDef, ast.AsyncFunctionDef)):
                fo = Func(m, None, s.name, s)
                self.funcs[fo.qual] = fo
            elif isinstance(s, ast.Assign) and len(s.targets) == 1 and isinstance(s.targets[0], ast.Name):
                consts[s.targets[0].id] = s.value
            elif isinstance(s, ast.AnnAssign) and isinstance(s.target, ast.Name) and s.value is not None:
                consts[s.target.id] = s.value

    def shared_mutable_state(self, ck):
        """class attributes of ck holding a mutable container (`x = bytearray()` / [] / {} in the class body) that methods modify in place through `self.x` while
        no method ever binds `self.x`: one object shared by all instances.  -> [(name, line of the class attribute, line of a mutation)]"""
        c = self.classes.get(ck)
        if c is None:
            return []
        out = []
        for name, v in c.consts.items():
            mutable = isinstance(v, (ast.List, ast.Dict, ast.Set)) or (isinstance(v, ast.Call) and isinstance(v.func, ast.Name) and v.func.id in ("bytearray", "list", "dict", "set", "deque", "defaultdict"))
            if not mutable:
                continue
            bound, mutated = False, None
            for f in c.methods.values():
                for n in ast.walk(f.node):
                    is_self_x = lambda a: isinstance(a, ast.Attribute) and a.attr == name and isinstance(a.value, ast.Name) and a.value.id == "self"
                    if isinstance(n, (ast.Assign, ast.AnnAssign)):
                        tg = n.targets if isinstance(n, ast.Assign) else [n.target]
                        if any(is_self_x(t) for t in tg) and (isinstance(n, ast.Assign) or n.value is not None):
                            bound = True
                        if any(isinstance(t, ast.Subscript) and is_self_x(t.value) for t in tg):
                            mutated = mutated or n.lineno
                    elif isinstance(n, ast.AugAssign) and is_self_x(n.target):
                        mutated = mutated or n.lineno  # += on a mutable container extends it in place
                    elif isinstance(n, ast.Call) and isinstance(n.func, ast.Attribute) and is_self_x(n.func.value) and n.func.attr in (
                            "append", "extend", "clear", "pop", "insert", "remove", "add", "update", "discard", "setdefault", "popitem", "appendleft", "popleft", "sort", "reverse"):
                        mutated = mutated or n.lineno
                    elif isinstance(n, ast.Delete) and any(isinstance(t, ast.Subscript) and is_self_x(t.value) for t in n.targets):
                        mutated = mutated or n.lineno
            if mutated and not bound:
                out.append((name, getattr(v, "lineno", c.node.lineno), mutated))
        return out

    def module_state(self, mod):
        """what a module keeps between calls: module-level containers that some function modifies, names rebound through `global`, memoising decorators,
        mutable class attributes modified through instances -> [(kind, name, line)]; empty = nothing carries over from one call to the next"""
        t = self.mods.get(mod)
        if t is None:
            return []
        top = {}
        for s_ in t.body:
            tg = s_.targets[0] if isinstance(s_, ast.Assign) and len(s_.targets) == 1 else s_.target if isinstance(s_, ast.AnnAssign) and s_.value is not None else None
            if isinstance(tg, ast.Name):
                top[tg.id] = s_.lineno
        out = []
        MUT = ("append", "extend", "clear", "pop", "insert", "remove", "add", "update", "discard", "setdefault", "popitem", "appendleft", "popleft", "sort", "reverse", "__setitem__")
        for f in [n for n in ast.walk(t) if isinstance(n, (ast.FunctionDef, ast.AsyncFunctionDef))]:
            local = {a.arg for a in f.args.args + f.args.kwonlyargs + f.args.posonlyargs} | {n.id for n in ast.walk(f) if isinstance(n, ast.Name) and isinstance(n.ctx, ast.Store)}
            for n in ast.walk(f):
                if isinstance(n, ast.Global):
                    out += [("global", g, n.lineno) for g in n.names]
                name = None
                if isinstance(n, ast.Call) and isinstance(n.func, ast.Attribute) and n.func.attr in MUT and isinstance(n.func.value, ast.Name):
                    name = n.func.value.id
                elif isinstance(n, (ast.Assign, ast.AugAssign, ast.Delete)):
                    for tg in (n.targets if isinstance(n, (ast.Assign, ast.Delete)) else [n.target]):
                        if isinstance(tg, ast.Subscript) and isinstance(tg.value, ast.Name):
                            name = tg.value.id
                if name and name in top and name not in local:
                    out.append(("module-container", name, n.lineno))
            for d in f.decorator_list:
                e = d.func if isinstance(d, ast.Call) else d
                dn = e.id if isinstance(e, ast.Name) else getattr(e, "attr", None)
                if dn in ("lru_cache", "cache", "cached_property"):
                    out.append(("memoised", f.name, f.lineno))
            # class attributes rebound at run time: cls.X = ... / ClassName.X = ... / type(self).X = ...
            cls_names = {c_.name for c_ in t.body if isinstance(c_, ast.ClassDef)}
            for n in ast.walk(f):
                for tg in (n.targets if isinstance(n, ast.Assign) else [n.target] if isinstance(n, (ast.AugAssign, ast.AnnAssign)) and getattr(n, "value", 1) is not None else []):
                    if isinstance(tg, ast.Attribute) and ((isinstance(tg.value, ast.Name) and (tg.value.id == "cls" or tg.value.id in cls_names)) or
                                                          (isinstance(tg.value, ast.Call) and isinstance(tg.value.func, ast.Name) and tg.value.func.id == "type")):
                        out.append(("class-attribute", f"{ast.unparse(tg.value)}.{tg.attr}", n.lineno))
        for ck in self.classes:
            if ck[0] == mod:
                out += [("class-container", f"{ck[1]}.{n_}", l2) for n_, l1, l2 in self.shared_mutable_state(ck)]
        return out

    def lookup_class_name(self, m, name):
        """resolve a bare class name used in module m -> class key"""
        if (m, name) in self.classes:
            return (m, name)
        imp = self.imports[m].get(name)
        if imp and imp[0] == "symbol" and (imp[1], imp[2]) in self.classes:
            return (imp[1], imp[2])
        return None

    def _resolve_bases(self, c):
        for b in c.node.bases:
            if isinstance(b, ast.Subscript):
                b = b.value
            if isinstance(b, ast.Name):
                k = self.lookup_class_name(c.mod, b.id)
                if k:
                    c.bases.append(k)
            elif isinstance(b, ast.Attribute) and isinstance(b.value, ast.Name):
                imp = self.imports[c.mod].get(b.value.id)
                if imp and imp[0] == "module" and (imp[1], b.attr) in self.classes:
                    c.bases.append((imp[1], b.attr))

    def mro(self, key):
        out, todo = [], [key]
        while todo:
            k = todo.pop(0)
            if k in out or k not in self.classes:
                continue
            out.append(k)
            todo.extend(self.classes[k].bases)
        return out

    def ann_class(self, m, ann):
        """first in-repo class named in an annotation"""
        if ann is None:
            return None
        for n in ast.walk(ann):
            if isinstance(n, ast.Name):
                k = self.lookup_class_name(m, n.id)
                if k:
                    return k
            if isinstance(n, ast.Constant) and isinstance(n.value, str):
                k = self.lookup_class_name(m, n.value.split("[")[0])
                if k:
                    return k
        return None

    def ann_optional(self, ann):
        return ann is not None and any(isinstance(n, ast.Constant) and n.value is None for n in ast.walk(ann))

    def _scan_fields(self, c):
        init = c.methods.get("__init__")
        if not init:
            return
        for s in ast.walk(init.node):
            tgt = val = ann = None
            if isinstance(s, ast.Assign) and len(s.targets) == 1 and isinstance(s.targets[0], ast.Attribute):
                tgt, val = s.targets[0], s.value
            elif isinstance(s, ast.AnnAssign) and isinstance(s.target, ast.Attribute):
                tgt, val, ann = s.target, s.value, s.annotation
            if tgt is None or not (isinstance(tgt.value, ast.Name) and tgt.value.id == "self"):
                continue
            c.field_inits[tgt.attr] = val
            k = self.ann_class(c.mod, ann) if ann is not None else None
            if k is None and isinstance(val, ast.Call):
                k = self.call_class(c.mod, val)
            c.field_types[tgt.attr] = k

    def call_class(self, m, call):
        f = call.func
        if isinstance(f, ast.Name):
            return self.lookup_class_name(m, f.id)
        if isinstance(f, ast.Attribute) and isinstance(f.value, ast.Name):
            imp = self.imports[m].get(f.value.id)
            if imp and imp[0] == "module" and (imp[1], f.attr) in self.classes:
                return (imp[1], f.attr)
        return None

    # ---------- queries
    def find_method(self, key, name):
        for k in self.mro(key):
            c = self.classes[k]
            if name in c.methods:
                return c.methods[name]
        return None

    def find_const(self, key, name):
        for k in self.mro(key):
            c = self.classes[k]
            if name in c.consts:
                return c.consts[name], k
        return None, None

    def field_type(self, key, attr):
        for k in self.mro(key):
            c = self.classes[k]
            if attr in c.field_types:
                return c.field_types[attr]
        return None

    def type_of(self, expr, fn: Func, env=None):
        """class key of an expression's value, or None"""
        env = env or {}
        if isinstance(expr, ast.Name):
            if expr.id == "self" and fn.cls:
                return (fn.mod, fn.cls)
            if expr.id in env:
                return env[expr.id]
            # parameter annotation
            for a in fn.node.args.args:
                if a.arg == expr.id and a.annotation is not None:
                    return self.ann_class(fn.mod, a.annotation)
            return None
        if isinstance(expr, ast.Call):
            f = expr.func
            if isinstance(f, ast.Name) and f.id == "cast" and len(expr.args) == 2:
                return self.ann_class(fn.mod, expr.args[0]) or self.type_of(expr.args[1], fn, env)
            k = self.call_class(fn.mod, expr)
            if k:
                return k
            callee = self.resolve_call(expr, fn, env)
            if callee and callee.node.returns is not None:
                return self.ann_class(callee.mod, callee.node.returns)
            return None
        if isinstance(expr, ast.Attribute):
            base = self.type_of(expr.value, fn, env)
            if base:
                ft = self.field_type(base, expr.attr)
                if ft:
                    return ft
                m = self.find_method(base, expr.attr)
                if m and m.kind == "property" and m.node.returns is not None:
                    return self.ann_class(m.mod, m.node.returns)
            return None
        return None

    def resolve_call(self, call, fn: Func, env=None):
        f = call.func
        if isinstance(f, ast.Attribute):
            base = self.type_of(f.value, fn, env)
            if base:
                return self.find_method(base, f.attr)
            # Class.method / module.func
            if isinstance(f.value, ast.Name):
                k = self.lookup_class_name(fn.mod, f.value.id)
                if k:
                    return self.find_method(k, f.attr)
                imp = self.imports[fn.mod].get(f.value.id)
                if imp and imp[0] == "module":
                    return self.funcs.get(f"{imp[1]}.{f.attr}")
            if isinstance(f.value, ast.Call) and isinstance(f.value.func, ast.Name) and f.value.func.id == "super" and fn.cls:
                for k in self.mro((fn.mod, fn.cls))[1:]:
                    if f.attr in self.classes[k].methods:
                        return self.classes[k].methods[f.attr]
            return None
        if isinstance(f, ast.Name):
            k = self.lookup_class_name(fn.mod, f.id)
            if k:
                return self.find_method(k, "__init__")
            if f"{fn.mod}.{f.id}" in self.funcs:
                return self.funcs[f"{fn.mod}.{f.id}"]
            imp = self.imports[fn.mod].get(f.id)
            if imp and imp[0] == "symbol":
                return self.funcs.get(f"{imp[1]}.{imp[2]}")
        return None

    def resolve_property(self, attr: ast.Attribute, fn: Func, env=None):
        base = self.type_of(attr.value, fn, env)
        if base:
            m = self.find_method(base, attr.attr)
            if m and m.kind == "property":
                return m
        return None

    def _folded(self, expr, mod):
        """value of a closed constant expression (arithmetic on other constants, `bytes(i ^ 0x20 for i in range(256))`, tuples of literals ...) when it is a
        plain immutable value; None otherwise"""
        memo = self.__dict__.setdefault("_fold_memo", {})
        k = id(expr)
        if k in memo and memo[k][0] is expr:
            return memo[k][1]
        v = None
        try:
            from sa.consteval import ConstEval, NotConstant
            ce = self.__dict__.get("_fold_ce")
            if ce is None:
                ce = self.__dict__["_fold_ce"] = ConstEval(self)
            try:
                r = ce.eval(expr, dict(ce.module_env(mod)) if mod in self.mods else {}, mod)
            except (NotConstant, RecursionError):
                r = None
            plain = (int, str, bytes, bool, float, type(None))
            if isinstance(r, plain) or (isinstance(r, tuple) and len(r) <= 4096 and all(isinstance(x, plain) for x in r)):
                if not (isinstance(r, (bytes, str)) and len(r) > 4096):
                    v = r
        except Exception:  # noqa
            v = None
        memo[k] = (expr, v)
        return v

    def const_value(self, expr, fn: Func):
        """resolve constant expressions incl. class and module constants"""
        v = self._const_value(expr, fn)
        if v is None and isinstance(expr, (ast.BinOp, ast.Call, ast.Tuple, ast.Subscript, ast.Compare, ast.BoolOp, ast.IfExp)) and not any(
                isinstance(n, ast.Name) and n.id == "self" for n in ast.walk(expr)):
            v = self._folded(expr, fn.mod)
        return v

    def _const_value(self, expr, fn: Func):
        if isinstance(expr, ast.Constant):
            return expr.value
        if isinstance(expr, ast.UnaryOp) and isinstance(expr.op, ast.USub):
            v = self._const_value(expr.operand, fn)
            return -v if isinstance(v, int) else None
        if isinstance(expr, ast.Attribute):
            key = None
            if isinstance(expr.value, ast.Name):
                if expr.value.id == "self" and fn.cls:
                    key = (fn.mod, fn.cls)
                else:
                    key = self.lookup_class_name(fn.mod, expr.value.id)
                    if key is None:
                        imp = self.imports[fn.mod].get(expr.value.id)
                        if imp and imp[0] == "module":
                            v = self.mod_consts.get(imp[1], {}).get(expr.attr)
                            if v is None:
                                return None
                            r = self._const_value(v, fn)
                            return r if r is not None else self._folded(v, imp[1])
            if key:
                v, k = self.find_const(key, expr.attr)
                if v is not None:
                    r = self._const_value(v, self.funcs.get(f"{k[0]}.{k[1]}.__init__", fn))
                    return r if r is not None else self._folded(v, k[0])
        if isinstance(expr, ast.Name):
            v = self.mod_consts.get(fn.mod, {}).get(expr.id)
            if v is not None and not isinstance(v, ast.Name):
                r = self._const_value(v, fn)
                return r if r is not None else self._folded(v, fn.mod)
        return None


