"""E-ABS/BV: the abstract interpreter (sa/abseval.py) with bit-precise integers.

Octets of a frame are GF(2)-affine bit-vectors (sa/bitlin.py: every bit a constant or an affine form of input variables).  The interpreter
executes repository code as written -- loops, helper functions and classes, records, properties -- and

  * &, |, ^, <<, >> and // % divmod by powers of two, int.from_bytes, table look-ups through a GF(2)-linear table stay exact bit-vectors;
  * a comparison whose outcome is fixed by constant bits is decided; any other condition on a bit-vector is a *predicate*: the caller's
    oracle supplies its truth value (the driver enumerates valuations), otherwise the evaluation stops as undecided;
  * octet strings are lists / tuples of bit-vectors.

Results are compared with the reference layout as bit-vectors, so spelling (shifts vs. divmod vs. from_bytes, helper functions, named tuples)
does not matter.
"""
from __future__ import annotations

import ast

from sa.abseval import ABytes, AbsEval, AbsRaise, AObj
from sa.bitlin import BV, Top, lookup_linear, table_linear
from sa.consteval import NotConstant
from sa.sveval import Res


def pred_of(v: BV, k: int = 0):
    """canonical predicate `v == k`: ('bit', affine form) when one bit decides it, ('never',) / ('always',) when constant, else ('eq0', bits)"""
    d = v ^ BV.const(k)
    bits = [b for b in d.bits if b != 0]
    if any(b == 1 for b in bits):
        return ("never",)
    if not bits:
        return ("always",)
    if len(bits) == 1:
        return ("bit", bits[0] ^ 1)  # the predicate holds iff this affine form is 1
    return ("eq0", tuple(d.bits))


class Pred:
    """a condition on bit-vectors as a value (the truth value of a comparison that constant bits do not decide)"""

    def __init__(self, key, neg=False):
        if key[0] == "bit" and neg:
            key, neg = ("bit", key[1] ^ 1), False
        self.key, self.negated = key, neg

    def neg(self):
        return Pred(self.key, not self.negated)

    def __eq__(self, o):
        return isinstance(o, Pred) and (self.key, self.negated) == (o.key, o.negated)

    def __hash__(self):
        return hash((self.key, self.negated))

    def __repr__(self):
        return f"<{'not ' if self.negated else ''}pred {self.key[0]}>"


class BVEval(AbsEval):
    def __init__(self, model, hooks=None, unequal=()):
        super().__init__(model, hooks=hooks, unequal=unequal)
        self.abstract_bytes = True

    # ------------------------------------------------------------------ values
    @staticmethod
    def _bv(x):
        if isinstance(x, BV):
            return x
        if isinstance(x, bool):
            return BV.const(int(x))
        if isinstance(x, int) and x >= 0:
            return BV.const(x)
        return None

    def binop(self, op, a, b):
        if isinstance(a, BV) or isinstance(b, BV):
            x, y = self._bv(a), self._bv(b)
            if x is None or y is None:
                if a is None or b is None:
                    raise AbsRaise("TypeError", "operator with None")
                raise NotConstant(f"operator {type(op).__name__} on a bit-vector and {type(a if x is None else b).__name__}")
            try:
                if x.is_const() and y.is_const():
                    r = super().binop(op, x.value(), y.value())
                    return r
                if isinstance(op, ast.BitXor):
                    return x ^ y
                if isinstance(op, ast.BitAnd):
                    return x.and_(y)
                if isinstance(op, ast.BitOr):
                    return x.or_(y)
                if isinstance(op, (ast.RShift, ast.LShift)) and y.is_const():
                    return x.shr(y.value()) if isinstance(op, ast.RShift) else x.shl(y.value())
                if isinstance(op, (ast.FloorDiv, ast.Mod, ast.Mult)) and y.is_const() and y.value() > 0 and y.value() & (y.value() - 1) == 0:
                    k = y.value().bit_length() - 1
                    if isinstance(op, ast.FloorDiv):
                        return x.shr(k)
                    if isinstance(op, ast.Mult):
                        return x.shl(k)
                    return x.and_(BV.const(y.value() - 1))
                if isinstance(op, ast.Mult) and x.is_const() and x.value() > 0 and x.value() & (x.value() - 1) == 0:
                    return y.shl(x.value().bit_length() - 1)
                if isinstance(op, ast.Add):
                    # no carries when the operands have no overlapping possibly-set bits
                    if all(x.bit(i) == 0 or y.bit(i) == 0 for i in range(max(x.width(), y.width()))):
                        return x.or_(y)
            except Top as e:
                raise NotConstant(f"bit-vector operation outside the affine domain: {e}")
            raise NotConstant(f"operator {type(op).__name__} on a symbolic bit-vector")
        return super().binop(op, a, b)

    def compare(self, op, a, b, node):
        if isinstance(a, BV) or isinstance(b, BV):
            if isinstance(op, (ast.Is, ast.IsNot)):
                same = a is b
                return same if isinstance(op, ast.Is) else not same
            if a is None or b is None:
                if isinstance(op, (ast.Eq, ast.NotEq)):
                    return isinstance(op, ast.NotEq)
                raise AbsRaise("TypeError", "ordering with None")
            x, y = self._bv(a), self._bv(b)
            if x is None or y is None:
                if isinstance(op, (ast.Eq, ast.NotEq)) and not isinstance(a if x is None else b, (int, float, Res)):
                    return isinstance(op, ast.NotEq)
                raise NotConstant("comparison of a bit-vector with a non-integer")
            if x.is_const() and y.is_const():
                from sa.consteval import CMPOPS
                return CMPOPS[type(op)](x.value(), y.value())
            if isinstance(op, (ast.Eq, ast.NotEq)):
                p = pred_of(x ^ y, 0)
                if p[0] in ("never", "always"):
                    return (p[0] == "always") == isinstance(op, ast.Eq)
                return Pred(p, isinstance(op, ast.NotEq))
            return Pred(("cmp", type(op).__name__, x.bits, y.bits))
        if isinstance(a, Pred) or isinstance(b, Pred):
            if isinstance(op, (ast.Is, ast.IsNot)):
                same = a is b
                return same if isinstance(op, ast.Is) else not same
            p, k = (a, b) if isinstance(a, Pred) else (b, a)
            if isinstance(op, (ast.Eq, ast.NotEq)) and isinstance(k, (bool, int)) and k in (0, 1):
                r = p if k else p.neg()
                return r if isinstance(op, ast.Eq) else r.neg()
            if isinstance(op, (ast.Eq, ast.NotEq)) and k is None:
                return isinstance(op, ast.NotEq)
            raise NotConstant("comparison with a symbolic truth value")
        return super().compare(op, a, b, node)

    def truth(self, v):
        if isinstance(v, Pred):
            r = self.branch(Res("bvpred", v.key), None)
            return (not r) if v.negated else r
        if isinstance(v, BV):
            if v.is_const():
                return v.value() != 0
            p = pred_of(v, 0)
            if p[0] in ("never", "always"):
                return p[0] == "never"
            return not self.branch(Res("bvpred", p), None)
        if isinstance(v, ABytes):
            return len(v) > 0
        return super().truth(v)

    # ------------------------------------------------------------------ expressions
    def eval(self, e, env, mod):
        if isinstance(e, ast.Subscript) and not isinstance(e.slice, ast.Slice):
            base = self.eval(e.value, env, mod)
            if isinstance(base, (list, tuple)):
                k = self.eval(e.slice, env, mod)
                if isinstance(k, BV):
                    if k.is_const():
                        k = k.value()
                    else:
                        if all(isinstance(x, int) and not isinstance(x, bool) for x in base) and table_linear(list(base)):
                            try:
                                return lookup_linear(list(base), k)
                            except Top as ex:
                                raise AbsRaise("IndexError", str(ex))
                        raise NotConstant("symbolic index into a sequence that is not a GF(2)-linear table")
                if isinstance(k, int) and not isinstance(k, bool):
                    try:
                        return base[k]
                    except IndexError:
                        raise AbsRaise("IndexError", f"index {k}")
            # fall through with the already evaluated base is not possible (side effects are absent in index expressions of the analysed code)
        if isinstance(e, ast.UnaryOp) and isinstance(e.op, ast.Not):
            v = self.eval(e.operand, env, mod)
            if isinstance(v, Pred):
                return v.neg()
            if isinstance(v, (BV, ABytes)):
                return not self.truth(v)
        return super().eval(e, env, mod)

    def call(self, e, env, mod):
        ftxt = ast.unparse(e.func)
        if ftxt == "int.from_bytes" and e.args:
            seq = self.eval(e.args[0], env, mod)
            order = self.eval(e.args[1], env, mod) if len(e.args) > 1 else next((self.eval(k.value, env, mod) for k in e.keywords if k.arg == "byteorder"), "big")
            signed = next((self.eval(k.value, env, mod) for k in e.keywords if k.arg == "signed"), False)
            if isinstance(seq, (list, tuple, bytes, bytearray)) and order in ("big", "little") and not signed:
                items = list(seq) if order == "little" else list(reversed(list(seq)))
                out = BV([])
                for i, o in enumerate(items):
                    v = self._bv(o)
                    if v is None or v.width() > 8:
                        raise NotConstant("int.from_bytes of non-octets")
                    out = out.or_(v.shl(8 * i))
                return out.value() if out.is_const() else out
        if isinstance(e.func, ast.Attribute) and e.func.attr in ("hex", "decode") and not e.args:
            base = self.eval(e.func.value, env, mod)
            if isinstance(base, (list, tuple)) and any(isinstance(x, BV) for x in base):
                return Res(e.func.attr, len(base))
            if isinstance(base, (list, tuple)) and all(isinstance(x, int) and not isinstance(x, bool) and 0 <= x < 256 for x in base):
                try:
                    return getattr(bytes(base), e.func.attr)()
                except UnicodeDecodeError:
                    raise AbsRaise("UnicodeDecodeError", "decode")
        return super().call(e, env, mod)

    def builtin(self, name, args, kw, node):
        a0 = args[0] if args else None
        if name in ("bytes", "bytearray") and not kw and len(args) == 1 and isinstance(a0, (list, tuple)):
            return ABytes(a0) if name == "bytearray" else tuple(a0)
        if name == "isinstance" and len(args) == 2 and isinstance(a0, BV):
            want = args[1] if isinstance(args[1], tuple) else (args[1],)
            return any(getattr(w, "__name__", None) == "int" for w in want)
        if name == "divmod" and len(args) == 2 and isinstance(a0, BV):
            return (self.binop(ast.FloorDiv(), a0, args[1]), self.binop(ast.Mod(), a0, args[1]))
        if name in ("int", "bool") and len(args) == 1 and isinstance(a0, BV):
            if name == "int":
                return a0
            p = pred_of(a0, 0)
            return (p[0] == "never") if p[0] in ("never", "always") else Pred(p, True)
        if name == "bool" and len(args) == 1 and isinstance(a0, Pred):
            return a0
        if name == "len" and len(args) == 1 and isinstance(a0, (list, tuple)):
            return len(a0)
        return super().builtin(name, args, kw, node)
